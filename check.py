#!/venv/bin/python
"""check.py <Cxx> [--tier quick|thorough] [--runs N] [--replay FILE] [--seed N] [--selftest]

Exit codes: 0 property held on everything explored (known findings printed as
KNOWN-FINDING lines); 1 at least one unlisted violation (VIOLATION property=<id>
replay=<path>); 2 harness error (HARNESS-ERROR ...), never reported as a pass.
"""
from __future__ import annotations

import argparse
import json
import os
import sys
import time

HERE = os.path.dirname(os.path.abspath(__file__))
sys.path.insert(0, HERE)

from sim import runner  # noqa: E402

runner.reexec_if_needed()

from sim import shrink  # noqa: E402
from sim.engine import H  # noqa: E402

KNOWN_FILE = os.path.join(HERE, "known_findings.json")
# (experiments against scratch copies of the repository redirect these two, so that they
#  never touch the committed replays / the evidence of the real tree)
REPLAY_DIR = os.environ.get("VERIF_REPLAY_DIR") or os.path.join(HERE, "replays")
EVIDENCE_DIR = os.environ.get("VERIF_EVIDENCE_DIR") or os.path.join(HERE, "evidence")

REAL_COMPONENTS = ["processscheduler.* (working tree of /repo)", "z3 engine 4.12 (single-threaded, real check()/model()/unsat_core())",
                   "pydantic", "pandas (to_df/to_csv)", "xlsxwriter (to_excel)"]
STUB_COMPONENTS = ["wall clock (time.perf_counter -> SimClock)", "z3 timeout (virtual, per-check latency vs max_time)",
                   "z3 verbosity", "z3 parallel threads (option recorded, engine stays single-threaded)",
                   "uuid4 (keyed PRNG)", "random.randint (keyed PRNG)", "open() in processscheduler.base/.solver/.problem (in-memory SimFS)",
                   "os.getcwd / os.cpu_count / os.path.isfile in base/solver", "rich print (recorder)",
                   "solver.statistics() as printed by debug mode (stub: rlimit count only - the real ones carry wall-clock readings)"]


def load_known():
    if not os.path.exists(KNOWN_FILE):
        return {"findings": [], "fixed": []}
    with open(KNOWN_FILE) as fh:
        return json.load(fh)


class KnownMap(dict):
    """signature -> finding; a listed signature may end its kinds part with '*'
    (same oracle rule and constraint sub-case, any task-kind qualifiers)."""

    def lookup(self, sig):
        if dict.__contains__(self, sig):
            return dict.__getitem__(self, sig)
        import fnmatch
        for pat, f in self.items():
            if "*" in pat and fnmatch.fnmatchcase(sig, pat):
                return f
        return None

    def __contains__(self, sig):
        return self.lookup(sig) is not None

    def __getitem__(self, sig):
        f = self.lookup(sig)
        if f is None:
            raise KeyError(sig)
        return f


def known_signatures(known, pid):
    return KnownMap({f["signature"]: f for f in known.get("findings", []) if f["property"] == pid})


def slug(s):
    return "".join(ch if ch.isalnum() else "-" for ch in s)[:80].strip("-")


def sig_in(res, sig):
    return res.get("status") == "ok" and any(v["signature"] == sig for v in res["verdict"]["violations"])


def minimise_and_write(check, pid, res, sig, budget, timeout):
    """concretise, minimise, re-run in a fresh process, write the replay file."""
    plan = res["concrete_plan"]
    r1 = runner.run_job({"pid": pid, "plan": plan, "want_plan": True}, timeout)
    if not sig_in(r1, sig):
        # concretisation lost the violation: keep the symbolic plan (still a pure function of the file)
        plan = res["plan"]
        r1 = runner.run_job({"pid": pid, "plan": plan, "want_plan": True}, timeout)
        if not sig_in(r1, sig):
            return None, "violation did not reproduce in a fresh child"

    def still(p):
        r = runner.run_job({"pid": pid, "plan": p}, timeout)
        return sig_in(r, sig)

    small, used = shrink.minimise(plan, still, budget=budget, rederive=getattr(check, "rederive", None))
    final = runner.run_job({"pid": pid, "plan": small, "want_plan": True, "want_events": True}, timeout)
    if not sig_in(final, sig):
        small = plan
        final = r1
    viol = [v for v in final["verdict"]["violations"] if v["signature"] == sig][0]
    os.makedirs(REPLAY_DIR, exist_ok=True)
    path = os.path.join(REPLAY_DIR, f"{pid}-{slug(sig.split('/', 1)[1])}-{res['run_seed']}.json")
    doc = {"property": pid, "signature": sig, "violation": viol, "expected_digest": final["digest"], "original_run_seed": res["run_seed"],
           "minimisation_runs": used, "plan": small}
    with open(path, "w") as fh:
        json.dump(doc, fh, indent=1, sort_keys=True, default=str)
    return path, None


def do_replay(pid, path):
    with open(path) as fh:
        doc = json.load(fh)
    if doc["property"] != pid:
        print(f"HARNESS-ERROR replay file is for {doc['property']}, not {pid}")
        return 2
    res = runner.run_job({"pid": pid, "plan": doc["plan"], "want_events": True}, 120)
    if res.get("status") != "ok":
        print("HARNESS-ERROR", res.get("error"))
        return 2
    sigs = [v["signature"] for v in res["verdict"]["violations"]]
    same_digest = res["digest"] == doc.get("expected_digest")
    print(f"replay {path}: signatures={sorted(set(sigs))} digest_match={same_digest}")
    if doc["signature"] in sigs:
        known = known_signatures(load_known(), pid)
        for v in res["verdict"]["violations"]:
            if v["signature"] == doc["signature"]:
                print("  detail:", json.dumps(v["detail"], default=str)[:400])
                break
        if doc["signature"] in known:
            print(f"KNOWN-FINDING: property={pid} {doc['signature']} {known[doc['signature']]['what']}")
            return 0
        print(f"VIOLATION property={pid} replay={path}")
        return 1
    print("replay did not reproduce the recorded violation (property holds on this tree for this schedule)")
    return 0


def run_batch(pid, tier, verif_seed, nruns, nworkers, max_wall):
    from oracles import get_check
    check = get_check(pid)
    known_all = load_known()
    known = known_signatures(known_all, pid)
    timeout = check.per_run_timeout
    if nruns is None:
        nruns = check.quick_runs if tier == "quick" else check.thorough_runs
    t0 = time.time()
    pool = runner.Pool(nworkers)
    agg = {"evaluations": 0, "keys": set(), "faults": {}, "probes": {}, "steer_admitted": 0, "steer_refused": 0, "checks": 0,
           "sim_seconds": 0.0, "inconclusive": 0, "build_rejected": 0, "unspecified": 0, "rules_checked": 0, "notes": {},
           "harness_errors": [], "viol": {}, "samples": [], "digests": {}, "fs_fired": 0, "uuid_collisions": 0, "stub_parallel_runs": 0,
           "run_wall": 0.0, "events": 0}

    def on_result(res):
        if res.get("status") != "ok":
            agg["harness_errors"].append({"run_seed": res.get("run_seed"), "error": res.get("error"), "trace": res.get("trace")})
            return
        agg["evaluations"] += 1
        v = res["verdict"]
        if v["key"] is not None:
            agg["keys"].add(json.dumps(v["key"], sort_keys=True, default=str))
        for k, n in res["faults"].items():
            agg["faults"][k] = agg["faults"].get(k, 0) + n
        for k, n in v["probes"].items():
            agg["probes"][k] = agg["probes"].get(k, 0) + n
        for k, n in v["notes"].items():
            agg["notes"][k] = agg["notes"].get(k, 0) + n
        for f in ("steer_admitted", "steer_refused", "checks", "inconclusive", "fs_fired", "uuid_collisions"):
            agg[f] += res[f]
        agg["sim_seconds"] += res["sim_seconds"]
        agg["run_wall"] += res["wall"]
        agg["events"] += res["n_events"]
        agg["unspecified"] += v["unspecified"]
        agg["rules_checked"] += v["rules_checked"]
        if res["build_rejected"]:
            agg["build_rejected"] += 1
        if res["stub_parallel"]:
            agg["stub_parallel_runs"] += 1
        if not res.get("real_timeout_guard"):
            agg["digests"][res["run_seed"]] = res["digest"]
        else:
            agg["real_timeout_guard"] = agg.get("real_timeout_guard", 0) + 1
        if res.get("plan") is not None and not v["violations"] and len(agg["samples"]) < 3:
            agg["samples"].append({"plan": res["plan"], "outcome": {"key": v["key"], "probes": v["probes"]}})
        for viol in v["violations"]:
            slot = agg["viol"].setdefault(viol["signature"], {"count": 0, "first": None})
            slot["count"] += 1
            if slot["first"] is None:
                slot["first"] = res

    jobs = []
    for i in range(nruns):
        rs = runner.run_seed_for(verif_seed, pid, i)
        job = {"pid": pid, "run_seed": rs, "tier": tier, "timeout": timeout, "job_id": i}
        if i < 3:
            job["want_plan"] = True
        jobs.append(job)
    done, early = pool.map(jobs, on_result, max_wall=max_wall)

    # determinism re-check: re-execute a slice of the seeds (other workers, other order)
    frac = 0.02 if tier == "quick" else 0.05
    nre = max(5, int(done * frac))
    rejobs = [dict(jobs[i], job_id=10_000_000 + i, want_plan=False) for i in range(min(done, nruns) - 1, -1, -max(1, done // nre))][:nre]
    first = dict(agg["digests"])
    mismatches = []

    def on_re(res):
        if res.get("status") != "ok":
            agg["harness_errors"].append({"run_seed": res.get("run_seed"), "error": res.get("error"), "phase": "recheck"})
            return
        d0 = first.get(res["run_seed"])
        if res.get("real_timeout_guard"):
            return  # the wall-clock guard fired in this execution: not comparable
        if d0 is not None and d0 != res["digest"]:
            mismatches.append(res["run_seed"])

    pool.map(rejobs, on_re)
    pool.close()

    # ---- classify violations ----
    rc = 0
    lines = []
    unlisted = []
    grouped = {}
    for sig, slot in sorted(agg["viol"].items()):
        if sig in known:
            f = known[sig]
            g = grouped.setdefault(f["signature"], {"f": f, "count": 0, "variants": []})
            g["count"] += slot["count"]
            g["variants"].append(sig)
        else:
            unlisted.append((sig, slot))
    for pat, g in grouped.items():
        lines.append(f"KNOWN-FINDING: property={pid} {pat} {g['f']['what']} (hit {g['count']}x in {len(g['variants'])} variant(s))")
    budget = 150 if tier == "quick" else 400
    for sig, slot in unlisted[:6]:
        path, err = minimise_and_write(check, pid, slot["first"], sig, budget, timeout)
        if path is None:
            agg["harness_errors"].append({"run_seed": slot["first"]["run_seed"], "error": f"{sig}: {err}"})
            continue
        lines.append(f"VIOLATION property={pid} replay={path}")
        detail = next((x["detail"] for x in slot["first"]["verdict"]["violations"] if x["signature"] == sig), None)
        lines.append(f"  signature={sig} hits={slot['count']} detail={json.dumps(detail, default=str)[:300]}")
        rc = 1
    for sig, slot in unlisted[6:]:
        lines.append(f"VIOLATION property={pid} replay=(not minimised) signature={sig} hits={slot['count']} run_seed={slot['first']['run_seed']}")
        rc = 1
    if mismatches:
        lines.append(f"HARNESS-ERROR determinism mismatch on run seeds {mismatches[:5]}")
        rc = 2
        # diagnose: execute the first such seed three more times and show where the logs part
        try:
            seed0 = mismatches[0]
            logs = [runner.run_job({"pid": pid, "run_seed": seed0, "tier": tier, "want_events": True}, timeout) for _ in range(3)]
            digs = [x.get("digest") for x in logs]
            lines.append(f"  seed {seed0}: first-pass digest {first.get(seed0)}, three fresh executions {digs}")
            a = json.dumps(logs[0].get("events"), sort_keys=True, default=str)
            for other in logs[1:]:
                b = json.dumps(other.get("events"), sort_keys=True, default=str)
                if a != b:
                    k = next(i for i in range(min(len(a), len(b))) if a[i] != b[i])
                    lines.append(f"  logs part at char {k}: ...{a[max(0, k - 200):k + 100]!r} VS ...{b[max(0, k - 60):k + 100]!r}")
                    break
        except Exception as exc:  # noqa: BLE001 - diagnostics only
            lines.append(f"  (diagnosis failed: {exc})")
    if agg["harness_errors"]:
        for he in agg["harness_errors"][:5]:
            lines.append(f"HARNESS-ERROR run_seed={he.get('run_seed')} {he.get('error')}")
            if he.get("trace"):
                lines.append("  " + he["trace"].strip().replace("\n", "\n  "))
        if rc == 0 or len(agg["harness_errors"]) > 0:
            rc = 2 if rc != 1 else 1
    if agg["evaluations"] and agg["build_rejected"] > 0.25 * agg["evaluations"]:
        lines.append(f"HARNESS-ERROR {agg['build_rejected']} of {agg['evaluations']} specs rejected by constructors")
        rc = 2 if rc == 0 else rc
    wall = time.time() - t0

    # ---- evidence ----
    zero_probes = [p for p in getattr(check, "expected_probes", []) if not agg["probes"].get(p)]
    if tier == "thorough":
        for p in zero_probes:
            lines.append(f"WARNING probe stayed at zero: {p}")
    ev = {
        "property_id": pid, "tier": tier, "seed": verif_seed, "level": "exploration",
        "coverage": {
            "evaluations": agg["evaluations"],
            "distinct_nontrivial": len(agg["keys"]),
            "rule": check.rule_text(),
            "samples": agg["samples"] or [{"note": "no violation-free sample captured"}],
            "runs_per_hour": int(agg["evaluations"] / max(wall, 1e-6) * 3600),
            "seeds": {"verif_seed": verif_seed, "first_run_seed": jobs[0]["run_seed"] if jobs else None,
                      "last_run_seed": jobs[done - 1]["run_seed"] if done else None, "runs_requested": nruns, "runs_done": done,
                      "stopped_on_wall_budget": bool(early)},
            "simulated_seconds": round(agg["sim_seconds"], 3),
            "engine_checks": agg["checks"],
            "api_calls": agg["events"],
            "faults_fired": agg["faults"],
            "io_faults_fired": agg["fs_fired"],
            "uuid_collisions_fired": agg["uuid_collisions"],
            "steer_admitted": agg["steer_admitted"], "steer_refused": agg["steer_refused"],
            "probes": dict(sorted(agg["probes"].items())),
            "probes_at_zero": zero_probes,
            "oracle_rules_evaluated": agg["rules_checked"],
            "unspecified_skipped": agg["unspecified"],
            "inconclusive_unknown": agg["inconclusive"],
            "build_rejected": agg["build_rejected"],
            "stub_parallel_runs": agg["stub_parallel_runs"],
            "real_timeout_guard_runs": agg.get("real_timeout_guard", 0),
            "determinism_rechecked": len(rejobs), "determinism_mismatches": len(mismatches),
            "known_findings_hit": {s: agg["viol"][s]["count"] for s in agg["viol"] if s in known},
            "other_property_notes": dict(sorted(agg["notes"].items(), key=lambda kv: -kv[1])[:20]),
            "real_components": REAL_COMPONENTS, "stub_components": STUB_COMPONENTS,
            "workers": nworkers, "harness_errors": len(agg["harness_errors"]),
        },
        "assumptions": check.assumptions(),
        "wall_s": round(wall, 2),
        "violations": len(unlisted),
    }
    os.makedirs(EVIDENCE_DIR, exist_ok=True)
    with open(os.path.join(EVIDENCE_DIR, f"{pid}.json"), "w") as fh:
        json.dump(ev, fh, indent=1, sort_keys=True, default=str)
    print(f"{pid} tier={tier} VERIF_SEED={verif_seed} runs={agg['evaluations']} distinct_nontrivial={len(agg['keys'])} "
          f"wall={wall:.1f}s runs/h={ev['coverage']['runs_per_hour']} checks={agg['checks']} steer+={agg['steer_admitted']} steer-={agg['steer_refused']} "
          f"faults={agg['faults']} unspecified={agg['unspecified']} rejected={agg['build_rejected']}")
    for ln in lines:
        print(ln)
    if rc == 0:
        print(f"OK property={pid}: held on everything explored")
    return rc


def dump_digests(pid, tier, verif_seed, n, nworkers, out):
    """run n seeds and write {run_seed: digest} (determinism proof: compare two invocations)"""
    pool = runner.Pool(nworkers)
    res = {}
    errs = []

    def on(r):
        if r.get("status") != "ok":
            errs.append(r.get("error"))
        elif not r.get("real_timeout_guard"):
            res[str(r["run_seed"])] = r["digest"]
    jobs = [{"pid": pid, "run_seed": runner.run_seed_for(verif_seed, pid, i), "tier": tier, "timeout": 60, "job_id": i} for i in range(n)]
    if nworkers % 2:
        jobs.reverse()
    pool.map(jobs, on)
    pool.close()
    with open(out, "w") as fh:
        json.dump({"digests": res, "errors": errs[:5]}, fh)
    print(f"{pid}: {len(res)} digests written to {out} ({len(errs)} errors)")
    return 0 if not errs else 2


def selftest():
    """imports, seam self-check, determinism smoke on 24 seeds."""
    pool = runner.Pool(4)
    d1, d2 = {}, {}
    errs = []

    def mk(store):
        def on(res):
            if res.get("status") != "ok":
                errs.append(res.get("error"))
            else:
                store[res["run_seed"]] = res["digest"]
        return on
    jobs = [{"pid": "C01", "run_seed": runner.run_seed_for(0, "selftest", i), "tier": "quick", "timeout": 60, "job_id": i} for i in range(24)]
    pool.map(jobs, mk(d1))
    pool.map(list(reversed(jobs)), mk(d2))
    pool.close()
    if errs:
        print("HARNESS-ERROR", errs[:3])
        return 2
    if d1 != d2 or len(d1) != 24:
        print("HARNESS-ERROR determinism smoke failed")
        return 2
    print("selftest ok: 24 seeds twice, digests equal")
    return 0


def main():
    ap = argparse.ArgumentParser()
    ap.add_argument("pid", nargs="?")
    ap.add_argument("--tier", default=os.environ.get("VERIF_TIER", "quick"), choices=["quick", "thorough"])
    ap.add_argument("--runs", type=int, default=None)
    ap.add_argument("--seed", type=int, default=None)
    ap.add_argument("--replay", default=None)
    ap.add_argument("--workers", type=int, default=int(os.environ.get("VERIF_WORKERS", "16")))
    ap.add_argument("--max-wall", type=float, default=None)
    ap.add_argument("--selftest", action="store_true")
    ap.add_argument("--digests", type=int, default=None, help="write the event digests of N seeds to --out and exit")
    ap.add_argument("--out", default=None)
    args = ap.parse_args()
    try:
        runner.warm_import()
        # every run is forked from a pristine zygote created here, before anything else happens
        runner.make_zygotes(4 if args.selftest else (1 if args.replay else args.workers))
        if args.selftest:
            return selftest()
        if args.pid is None:
            ap.error("property id required")
        seed = args.seed if args.seed is not None else int(os.environ.get("VERIF_SEED", "0") or 0)
        if args.replay:
            return do_replay(args.pid, args.replay)
        if args.digests:
            return dump_digests(args.pid, args.tier, seed, args.digests, args.workers, args.out or f"/tmp/digests_{args.pid}.json")
        max_wall = args.max_wall
        if max_wall is None:
            max_wall = 240 if args.tier == "quick" else 3000
        return run_batch(args.pid, args.tier, seed, args.runs, args.workers, max_wall)
    except runner.HarnessError as exc:
        print("HARNESS-ERROR", exc)
        return 2
    finally:
        for z in list(runner.ZYGOTES) + ([runner.MAIN_ZYGOTE] if runner.MAIN_ZYGOTE else []):
            z.close()


if __name__ == "__main__":
    sys.exit(main())
