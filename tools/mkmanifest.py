#!/venv/bin/python
"""Regenerate /verif/MANIFEST.json from the checks that exist under oracles/."""
import json
import os
import sys

HERE = os.path.dirname(os.path.dirname(os.path.abspath(__file__)))
sys.path.insert(0, HERE)

NA = {
    "C17": "not applicable to deterministic simulation: render_gantt_matplotlib is a pure function solution -> matplotlib artists; "
           "no clock, engine call, entropy, library-owned state or repository I/O on that path, so there is no schedule, fault or history "
           "for a simulator to vary (DESIGN.md section 7). Input generation alone would not be this technique.",
    "C18": "not applicable to deterministic simulation: accept/reject at construction is a pure function of the constructor arguments and "
           "the name registry; no time, engine, I/O, fault or interleaving is involved (DESIGN.md section 7). The spec builder records "
           "constructor rejections of generated well-formed specs as build_rejected, but no claim is made.",
}

LEVEL_TEXT = {
    "default": "Seeded exploration: many short deterministic simulated runs of the real library (real z3 engine behind a steering "
               "proxy, simulated clock/entropy/filesystem), each judged by an executable reference model; evidence, not proof.",
}


def main():
    from oracles import CLAIMED
    checks = []
    na = []
    for pid in ["C%02d" % i for i in range(1, 20)]:
        path = os.path.join(HERE, "oracles", pid.lower() + ".py")
        if pid in NA:
            na.append({"property_id": pid, "reason": NA[pid]})
            continue
        if not os.path.exists(path):
            na.append({"property_id": pid, "reason": "claimed in DESIGN.md but its check is not implemented yet in this commit (work in progress); no claim is made until it is."})
            continue
        import importlib
        mod = importlib.import_module("oracles." + pid.lower())
        chk = mod.CHECK
        checks.append({
            "property_id": pid,
            "quick_cmd": f"/venv/bin/python check.py {pid} --tier quick",
            "thorough_cmd": f"/venv/bin/python check.py {pid} --tier thorough",
            "evidence_file": f"/verif/evidence/{pid}.json",
            "replay_cmd_template": f"/venv/bin/python check.py {pid} --replay {{path}}",
            "engine": "dst",
            "level_claimed": {"category": "exploration", "text": getattr(chk, "level_text", LEVEL_TEXT["default"]),
                              "design_ref": "DESIGN.md section 6 / " + pid},
            "level_note": getattr(chk, "level_note", "Trusted: reference semantics in /verif/ref, spec builder, z3 as SAT oracle for pins, CPython, pydantic. "
                                                    "z3 parallel mode and real timeouts are stubbed. Sampling, not exhaustive."),
            "technique": getattr(chk, "technique", "deterministic simulation with fault injection"),
        })
    manifest = {
        "version": 1,
        "setup_cmd": "/venv/bin/python check.py --selftest",
        "hooks": {
            "guard": "PROCESSSCHEDULER_VERIF",
            "enable": "no source hook is needed: every seam is a module-level name of processscheduler.* replaced from outside by sim/engine.py "
                      "(install/uninstall); the guard name is reserved and unused",
            "baseline_off_cmd": "cd /repo && /venv/bin/python -m pytest -ra -q -p no:cacheprovider --timeout=900 --continue-on-collection-errors",
            "source_commits": [],
            "add_only": True,
        },
        "engines": [{"name": "dst", "path": "/verif/sim", "serves_properties": [c["property_id"] for c in checks],
                     "kind_free_text": "deterministic simulator: fork-per-run, seeded plans, z3 engine proxy with model steering, "
                                       "simulated clock / entropy / filesystem, reference-model oracles, delta-debugging minimiser, replay files"}],
        "checks": checks,
        "not_applicable": na,
        "notes": "See DESIGN.md. Exit codes of every check: 0 held (KNOWN-FINDING lines allowed), 1 VIOLATION, 2 HARNESS-ERROR.",
    }
    with open(os.path.join(HERE, "MANIFEST.json"), "w") as fh:
        json.dump(manifest, fh, indent=1)
    print("wrote MANIFEST.json:", [c["property_id"] for c in checks], "n/a:", [n["property_id"] for n in na])


if __name__ == "__main__":
    main()
