#!/venv/bin/python
"""Regenerate /verif/MANIFEST.json from the checks that exist under oracles/."""
import json
import os
import sys

HERE = os.path.dirname(os.path.dirname(os.path.abspath(__file__)))
sys.path.insert(0, HERE)

NA = {
    "C17": "not applicable to deterministic simulation: render_gantt_matplotlib is a pure function solution -> matplotlib artists; "
           "no clock, engine call, entropy, library-owned state or repository I/O on that path, so there is no schedule, fault or history "
           "for a simulator to vary (DESIGN.md section 7). Input generation alone would not be this technique.",
    "C18": "not applicable to deterministic simulation: accept/reject at construction is a pure function of the constructor arguments and "
           "the name registry; no time, engine, I/O, fault or interleaving is involved (DESIGN.md section 7). The spec builder records "
           "constructor rejections of generated well-formed specs as build_rejected, but no claim is made.",
}

PER_CHECK = {
 "C01": "Seeded runs of the real solver on generated problems; the z3 engine behind the library is steered (greedy random pinning of every decision unknown to adversarial values, +-1 perturbations of returned schedules, alternative optimal models) so that schedules other than z3's default model are returned; every returned schedule is judged against the timing rules. Sampling of the 'all admitted schedules' quantifier, not proof.",
 "C02": "Same steering; oracle: pairwise non-overlap per worker, cumulative capacity at every instant, assignment / dynamic spans, selection count and membership, work amounts (unit workers read from the engine model).",
 "C03": "Same steering; oracle: documented relation of every mandatory task constraint (three-valued reference semantics, UNSPECIFIED abstains).",
 "C04": "Same steering; oracle: documented meaning of every mandatory resource constraint, incl. periodic windows of following periods, workload overlaps, distances, interruptions, same/distinct selections.",
 "C05": "Completeness by refinement sampling: candidates the reference model classifies VALID on every element (exhaustive enumeration on tiny specs, seeded sampler otherwise) are pinned on the first engine check of solve(); a refusal is a lost schedule; a False verdict with a known valid candidate is a false unsat. The judge re-validates each candidate against the spec it judges. Focused scenario profiles (several interruptible tasks on one interrupted worker, optional variants of constraints) are mixed into a fraction of the runs.",
 "C06": "Inertness rules on every schedule with an unscheduled optional task, optional-task rules, twin clients (problem vs problem with the unscheduled tasks deleted) admitting each other's schedules, and reference-valid candidates per unscheduled subset.",
 "C07": "The incremental optimiser under a full environment schedule (first models steered away from / onto bounds, injected unknown, simulated slow checks crossing max_time and the extrapolated-time stop, max_iter, disk errors inside save_intermediate_states); referees: examiner ('strictly better' pinned), second optimiser, exhaustive reference optimum on tiny specs, incumbent monitor at the engine seam, Optimize referee (galloping + bisection over the optimiser's own assertions). Objective targets include user expressions with declared bounds and the due-date indicators (optimum 0 or negative); the first model may be pinned on a bound or on objective value 0.",
 "C08": "Indicator values recomputed from the reported schedule (steered schedules, indicator unknowns themselves pinned away), targets/bounds checked.",
 "C09": "Engine model choice = interleaving of load/unload instants incl. ties; event-ordered replay of every reported buffer.",
 "C10": "Formula evaluated with Python connectives over operand meanings on every returned schedule; applied flags from the engine model; reference-valid candidates (preferring those violating an operand alone) pinned to expose leaked operands / too strong encodings; any task / resource constraint kind may be declared optional, and a refused reference-valid schedule whose only culprit is an optional constraint is a violation (unapplied must exclude nothing).",
 "C11": "Field-by-field cross-checks of every returned solution object (task view vs resource view, calendar arithmetic, horizon, equality with the engine model handed out at the seam).",
 "C12": "History oracle over solve / find_another* sequences with transient injected unknowns, an injected KeyboardInterrupt inside one call, and steered enumeration order: validity, distinctness, legality of False (examiner with the accumulated blocking state), exhaustive count against the enumerator on tiny specs.",
 "C13": "History oracle over random call sequences on one solver object under early-stop faults (unknown, virtual timeout, max_iter, disk error inside the loop, KeyboardInterrupt at the n-th engine check): reference model = valid schedules (examiner) + documented blocking state.",
 "C14": "Twin clients (renamed; declaration order of tasks, workers, constraints, indicators, buffers and resource assignments permuted) and two executions in one child (pristine, then after a prelude incl. an 'evil twin' reusing every name): verdicts, optima and cross-pins compared.",
 "C15": "One spec under 2-4 configurations (optimizer, priority, random_values, debug, covering logics, parallel stub): validity everywhere, agreement of definite answers, engine crashes and engine non-optimal answers classified apart; search-order options are simulated by varying the model the incremental loop starts from (a declared bound, 0, far from the optimum).",
 "C16": "Exports read back with independent parsers (json, csv, zipfile+xml, z3 SMT-LIB parser) and compared with the solution object; injected I/O faults (open/write/close, short write) on the repository's own open() calls; exported SMT-LIB re-solved and its model pinned on a fresh client.",
 "C19": "Planted conflicts (incl. multi-assertion and forced-optional ones) among irrelevant constraints; printed diagnosis read as objects; named subset re-solved; debug vs normal verdict; injected tracking-literal collision and global-option interference.",
}

LEVEL_TEXT = {
    "default": "Seeded exploration: many short deterministic simulated runs of the real library (real z3 engine behind a steering "
               "proxy, simulated clock/entropy/filesystem), each judged by an executable reference model; evidence, not proof.",
}


def main():
    from oracles import CLAIMED
    checks = []
    na = []
    for pid in ["C%02d" % i for i in range(1, 20)]:
        path = os.path.join(HERE, "oracles", pid.lower() + ".py")
        if pid in NA:
            na.append({"property_id": pid, "reason": NA[pid]})
            continue
        if not os.path.exists(path):
            na.append({"property_id": pid, "reason": "claimed in DESIGN.md but its check is not implemented yet in this commit (work in progress); no claim is made until it is."})
            continue
        import importlib
        mod = importlib.import_module("oracles." + pid.lower())
        chk = mod.CHECK
        checks.append({
            "property_id": pid,
            "quick_cmd": f"/venv/bin/python check.py {pid} --tier quick",
            "thorough_cmd": f"/venv/bin/python check.py {pid} --tier thorough",
            "evidence_file": f"/verif/evidence/{pid}.json",
            "replay_cmd_template": f"/venv/bin/python check.py {pid} --replay {{path}}",
            "engine": "dst",
            "level_claimed": {"category": "exploration", "text": LEVEL_TEXT["default"] + " " + PER_CHECK.get(pid, ""),
                              "design_ref": "DESIGN.md section 6 / " + pid},
            "level_note": getattr(chk, "level_note", "Trusted: reference semantics in /verif/ref, spec builder, z3 as SAT oracle for pins, CPython, pydantic. "
                                                    "z3 parallel mode, real timeouts and the statistics z3 reports to the library are stubbed. Sampling, not exhaustive."),
            "technique": getattr(chk, "technique", "deterministic simulation with fault injection"),
        })
    manifest = {
        "version": 1,
        "setup_cmd": "/venv/bin/python check.py --selftest",
        "hooks": {
            "guard": "PROCESSSCHEDULER_VERIF",
            "enable": "no source hook is needed: every seam is a module-level name of processscheduler.* replaced from outside by sim/engine.py "
                      "(install/uninstall); the guard name is reserved and unused",
            "baseline_off_cmd": "cd /repo && /venv/bin/python -m pytest -ra -q -p no:cacheprovider --timeout=900 --continue-on-collection-errors",
            "source_commits": [],
            "add_only": True,
        },
        "engines": [{"name": "dst", "path": "/verif/sim", "serves_properties": [c["property_id"] for c in checks],
                     "kind_free_text": "deterministic simulator: fork-per-run, seeded plans, z3 engine proxy with model steering, "
                                       "simulated clock / entropy / filesystem, reference-model oracles, delta-debugging minimiser, replay files"}],
        "checks": checks,
        "not_applicable": na,
        "notes": "See DESIGN.md. Exit codes of every check: 0 held (KNOWN-FINDING lines allowed), 1 VIOLATION, 2 HARNESS-ERROR.",
    }
    with open(os.path.join(HERE, "MANIFEST.json"), "w") as fh:
        json.dump(manifest, fh, indent=1)
    print("wrote MANIFEST.json:", [c["property_id"] for c in checks], "n/a:", [n["property_id"] for n in na])


if __name__ == "__main__":
    main()
