#!/venv/bin/python
"""try_mutant.py <worktree with the change applied> <id> <check ids...>
Confirms the demo (exit 1 with the change, 0 without), then runs the named quick checks
against the worktree (VERIF_REPO) and reports which ones raise a VIOLATION."""
import json, os, subprocess, sys, time
HERE = os.path.dirname(os.path.dirname(os.path.abspath(__file__)))
wt, mid = sys.argv[1], sys.argv[2]
checks = sys.argv[3:]
def demo():
    p = subprocess.run(["/venv/bin/python", "_mutant/demo.py"], cwd=wt, capture_output=True, text=True, timeout=600,
                       env=dict(os.environ, PYTHONPATH=wt))
    return p.returncode
out = {"id": mid, "worktree": wt}
# (git stash is shared by all worktrees of a repository: never use it here)
patch = os.path.join(wt, "_mutant", "patch.diff")
cur = subprocess.run(["git", "diff", "--", "processscheduler"], cwd=wt, capture_output=True, text=True).stdout
if cur.strip() != open(patch).read().strip():
    subprocess.run(["git", "checkout", "--", "processscheduler"], cwd=wt, check=True)
    subprocess.run(["git", "apply", patch], cwd=wt, check=True)
    out["worktree_restored_from_patch"] = True
out["demo_with_change"] = demo()
subprocess.run(["git", "apply", "-R", patch], cwd=wt, check=True)
try:
    out["demo_without_change"] = demo()
finally:
    subprocess.run(["git", "apply", patch], cwd=wt, check=True)
out["checks"] = {}
import tempfile
scratch = tempfile.mkdtemp(prefix="verif_mut_")
env = dict(os.environ, VERIF_REPO=wt, VERIF_REPLAY_DIR=os.path.join(scratch, "replays"), VERIF_EVIDENCE_DIR=os.path.join(scratch, "evidence"))
for pid in checks:
    t = time.time()
    p = subprocess.run(["/venv/bin/python", os.path.join(HERE, "check.py"), pid, "--tier", os.environ.get("VERIF_TIER", "quick")] + (["--seed", os.environ["VERIF_SEED"]] if os.environ.get("VERIF_SEED") else []),
                       cwd=HERE, env=env, capture_output=True, text=True)
    sigs = [l.strip() for l in p.stdout.splitlines() if l.startswith("  signature=")]
    out["checks"][pid] = {"rc": p.returncode, "wall": round(time.time() - t, 1), "signatures": [s[:260] for s in sigs][:6],
                          "harness": [l[:200] for l in p.stdout.splitlines() if l.startswith("HARNESS")][:3]}
import shutil
shutil.rmtree(scratch, ignore_errors=True)
print(json.dumps(out, indent=1))
