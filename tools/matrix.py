#!/venv/bin/python
"""matrix.py [seeded ids...]: for every kept change under /verif/seeded/, make a scratch
worktree of /repo HEAD (outside /repo and /verif), apply patch.diff, run every quick check
against it (VERIF_REPO) and record which checks raise a VIOLATION -> reports/matrix.json."""
import json, os, subprocess, sys, tempfile, shutil, time
HERE = os.path.dirname(os.path.dirname(os.path.abspath(__file__)))
ids = sys.argv[1:] or sorted(os.listdir(os.path.join(HERE, "seeded")))
props = sorted(f[:-3].upper() for f in os.listdir(os.path.join(HERE, "oracles")) if f.startswith("c") and f[1:3].isdigit())
out_path = os.path.join(HERE, "reports", "matrix.json")
matrix = json.load(open(out_path)) if os.path.exists(out_path) else {}
for sid in ids:
    if sid in matrix and len(matrix[sid]) == len(props):
        continue
    d = os.path.join(HERE, "seeded", sid)
    wt = tempfile.mkdtemp(prefix="mx_", dir="/tmp")
    os.rmdir(wt)
    subprocess.run(["git", "-C", "/repo", "worktree", "add", "-q", "--detach", wt, "HEAD"], check=True)
    try:
        subprocess.run(["git", "-C", wt, "apply", os.path.join(d, "patch.diff")], check=True)
        row = {}
        for pid in props:
            t = time.time()
            p = subprocess.run(["/venv/bin/python", os.path.join(HERE, "check.py"), pid, "--runs", os.environ.get("MATRIX_RUNS", "600")], cwd=HERE, env=dict(os.environ, VERIF_REPO=wt, VERIF_REPLAY_DIR=os.path.join(wt, "_replays"), VERIF_EVIDENCE_DIR=os.path.join(wt, "_evidence")), capture_output=True, text=True)
            sigs = sorted(set(l.split("signature=")[1].split(" ")[0] for l in p.stdout.splitlines() if "signature=" in l and l.startswith("  signature=")))
            row[pid] = {"rc": p.returncode, "signatures": sigs[:8], "wall": round(time.time() - t)}
            print(sid, pid, p.returncode, sigs[:2], flush=True)
        matrix[sid] = row
        json.dump(matrix, open(out_path, "w"), indent=1)
    finally:
        subprocess.run(["git", "-C", "/repo", "worktree", "remove", "--force", wt])
