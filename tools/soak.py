#!/venv/bin/python
"""soak.py <seed-from> <seed-to> [props...]: run quick checks over several VERIF_SEED values, print only what needs attention."""
import subprocess, sys, os, time
HERE = os.path.dirname(os.path.dirname(os.path.abspath(__file__)))
a, b = int(sys.argv[1]), int(sys.argv[2])
props = sys.argv[3:]
if not props:
    props = sorted(f[:-3].upper() for f in os.listdir(os.path.join(HERE, "oracles")) if f.startswith("c") and f[1:3].isdigit())
tier = os.environ.get("VERIF_TIER", "quick")
for pid in props:
    for seed in range(a, b + 1):
        t = time.time()
        p = subprocess.run(["/venv/bin/python", os.path.join(HERE, "check.py"), pid, "--seed", str(seed), "--tier", tier], capture_output=True, text=True, cwd=HERE)
        lines = [l for l in p.stdout.splitlines() if l.startswith(("VIOLATION", "HARNESS", "  signature"))]
        print(f"{pid} seed={seed} rc={p.returncode} {time.time()-t:.0f}s", flush=True)
        for l in lines:
            print("   ", l[:300], flush=True)
