#!/venv/bin/python
"""keep_mutant.py <worktree> <seeded id> <property> <needs...text> -- <check ids...>
Runs try_mutant and stores the change under /verif/seeded/<id>/ (patch.diff, demo.py, notes.md, meta.json)."""
import json, os, shutil, subprocess, sys
HERE = os.path.dirname(os.path.dirname(os.path.abspath(__file__)))
args = sys.argv[1:]
sep = args.index("--")
wt, sid, prop = args[0], args[1], args[2]
needs = " ".join(args[3:sep])
checks = args[sep + 1:]
p = subprocess.run(["/venv/bin/python", os.path.join(HERE, "tools", "try_mutant.py"), wt, sid] + checks, capture_output=True, text=True)
res = json.loads(p.stdout)
d = os.path.join(HERE, "seeded", sid)
os.makedirs(d, exist_ok=True)
for f in ("patch.diff", "demo.py", "notes.md"):
    if os.path.exists(os.path.join(wt, "_mutant", f)):
        shutil.copy(os.path.join(wt, "_mutant", f), os.path.join(d, f))
suite = None
sf = os.path.join(wt, "_mutant", "suite.txt")
if os.path.exists(sf):
    suite = open(sf).read().strip().splitlines()[-1]
meta = {"id": sid, "breaks_property": prop, "needs_to_manifest": needs,
        "what_was_run": {"demo_with_change_exit": res["demo_with_change"], "demo_without_change_exit": res["demo_without_change"],
                         "existing_test_suite_with_change": suite or "see notes.md (run by the author of the change); re-run recorded in suite.txt when present",
                         "checks": {k: {"exit": v["rc"], "violation_signatures": v["signatures"], "wall_s": v["wall"]} for k, v in res["checks"].items()}},
        "detected_by": [k for k, v in res["checks"].items() if v["rc"] == 1]}
json.dump(meta, open(os.path.join(d, "meta.json"), "w"), indent=1)
print(json.dumps(meta, indent=1))
