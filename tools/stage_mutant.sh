#!/bin/sh
# stage_mutant.sh <worktree>: put an uncommitted change + demo.py + notes.md of a scratch worktree into <worktree>/_mutant/
set -e
wt=$1
mkdir -p $wt/_mutant
git -C $wt diff -- processscheduler > $wt/_mutant/patch.diff
for f in demo.py notes.md; do [ -f $wt/$f ] && mv $wt/$f $wt/_mutant/$f; done
wc -l $wt/_mutant/patch.diff
