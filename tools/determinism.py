#!/venv/bin/python
"""determinism.py [N] [props...]: for each property run N seeds in three separate
interpreter invocations - 16 workers, 5 workers (reversed dispatch order), 3 workers with
another PYTHONHASHSEED requested - and compare every event digest."""
import json, os, subprocess, sys, tempfile
HERE = os.path.dirname(os.path.dirname(os.path.abspath(__file__)))
n = int(sys.argv[1]) if len(sys.argv) > 1 else 300
props = sys.argv[2:] or sorted(f[:-3].upper() for f in os.listdir(os.path.join(HERE, "oracles")) if f.startswith("c") and f[1:3].isdigit())
bad = 0
report = {}
with tempfile.TemporaryDirectory() as d:
    for pid in props:
        outs = []
        for k, (w, hs) in enumerate(((16, None), (5, None), (3, "123"))):
            out = os.path.join(d, f"{pid}_{k}.json")
            env = dict(os.environ)
            if hs:
                env["PYTHONHASHSEED"] = hs   # check.py re-execs itself with 0: the request must not matter
                env.pop("VERIF_NOASLR", None)
            subprocess.run(["/venv/bin/python", os.path.join(HERE, "check.py"), pid, "--digests", str(n), "--workers", str(w), "--out", out],
                           cwd=HERE, env=env, capture_output=True, text=True)
            outs.append(json.load(open(out))["digests"])
        keys = set(outs[0]) & set(outs[1]) & set(outs[2])
        diff = [k for k in keys if not (outs[0][k] == outs[1][k] == outs[2][k])]
        report[pid] = {"seeds_compared": len(keys), "mismatches": len(diff)}
        print(pid, report[pid], flush=True)
        bad += len(diff)
json.dump(report, open(os.path.join(HERE, os.environ.get("DETERMINISM_OUT", os.path.join("reports", "determinism.json"))), "w"), indent=1)
sys.exit(1 if bad else 0)
