#!/venv/bin/python
"""recheck_seeded.py <seeded id> [--suite] -- <check ids...>: rebuild a scratch worktree of /repo HEAD
from /verif/seeded/<id>/ (patch + demo), confirm demo exit codes, optionally the test suite,
run the checks against it and refresh meta.json."""
import json, os, shutil, subprocess, sys, tempfile
HERE = os.path.dirname(os.path.dirname(os.path.abspath(__file__)))
args = sys.argv[1:]
sid = args[0]
suite = "--suite" in args
checks = args[args.index("--") + 1:] if "--" in args else []
d = os.path.join(HERE, "seeded", sid)
wt = tempfile.mkdtemp(prefix="rs_", dir="/tmp"); os.rmdir(wt)
subprocess.run(["git", "-C", "/repo", "worktree", "add", "-q", "--detach", wt, "HEAD"], check=True)
try:
    os.makedirs(os.path.join(wt, "_mutant"))
    for f in os.listdir(d):
        if f != "meta.json":
            shutil.copy(os.path.join(d, f), os.path.join(wt, "_mutant", f))
    subprocess.run(["git", "-C", wt, "apply", os.path.join(d, "patch.diff")], check=True)
    if suite:
        p = subprocess.run(["/venv/bin/python", "-m", "pytest", "-q", "-rf", "-p", "no:cacheprovider", "--timeout=900", "test/"], cwd=wt, capture_output=True, text=True)
        line = p.stdout.strip().splitlines()[-1]
        failed = [l.split()[1] for l in p.stdout.splitlines() if l.startswith("FAILED") and "plotly" not in l and "test_gantt_with_buffers" not in l]
        if failed:
            # timing-sensitive tests fail under CPU load (20 s default max_time): re-run them alone
            q = subprocess.run(["/venv/bin/python", "-m", "pytest", "-q", "-p", "no:cacheprovider", "--timeout=900"] + failed, cwd=wt, capture_output=True, text=True)
            line += " | re-run alone of " + ",".join(failed) + ": " + q.stdout.strip().splitlines()[-1]
        open(os.path.join(wt, "_mutant", "suite.txt"), "w").write(line + "\n")
    meta = json.load(open(os.path.join(d, "meta.json")))
    p = subprocess.run(["/venv/bin/python", os.path.join(HERE, "tools", "try_mutant.py"), wt, sid] + checks, capture_output=True, text=True)
    res = json.loads(p.stdout)
    meta["what_was_run"]["demo_with_change_exit"] = res["demo_with_change"]
    meta["what_was_run"]["demo_without_change_exit"] = res["demo_without_change"]
    if suite:
        meta["what_was_run"]["existing_test_suite_with_change"] = open(os.path.join(wt, "_mutant", "suite.txt")).read().strip()
    for k, v in res["checks"].items():
        meta["what_was_run"]["checks"][k] = {"exit": v["rc"], "violation_signatures": v["signatures"], "wall_s": v["wall"]}
    meta["detected_by"] = sorted(set(k for k, v in meta["what_was_run"]["checks"].items() if v["exit"] == 1))
    head = subprocess.run(["git", "-C", "/repo", "log", "--format=%h", "-1"], capture_output=True, text=True).stdout.strip()
    meta["patch_applies_to_repo_commit"] = head
    json.dump(meta, open(os.path.join(d, "meta.json"), "w"), indent=1)
    print(sid, "demo", res["demo_with_change"], res["demo_without_change"], "detected_by", meta["detected_by"], meta["what_was_run"].get("existing_test_suite_with_change", "")[:60])
finally:
    subprocess.run(["git", "-C", "/repo", "worktree", "remove", "--force", wt])
