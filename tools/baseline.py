#!/venv/bin/python
"""Run the repository's pinned test suite (guard off) and compare with /root/.vp/BASELINE.json."""
import json, subprocess, sys, tempfile, os, xml.etree.ElementTree as ET
base = json.load(open("/root/.vp/BASELINE.json"))
with tempfile.TemporaryDirectory() as d:
    out = os.path.join(d, "j.xml")
    cmd = base["cmd"].replace("<file>", out)
    p = subprocess.run(cmd, shell=True, capture_output=True, text=True)
    root = ET.parse(out).getroot()
    passed = set()
    for tc in root.iter("testcase"):
        if tc.find("failure") is None and tc.find("error") is None and tc.find("skipped") is None:
            passed.add(f"{tc.get('classname')}::{tc.get('name')}")
missing = [t for t in base["stable_pass"] if t not in passed]
print(f"passed={len(passed)} baseline={len(base['stable_pass'])} missing={len(missing)}")
for m in missing: print("  MISSING", m)
sys.exit(1 if missing else 0)
