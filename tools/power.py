#!/venv/bin/python
"""power.py [seeds...]: detection power of the quick tier.  For every kept change under seeded/, a scratch
worktree of /repo HEAD gets the patch, and the quick check of the property the change was written against
runs for each VERIF_SEED given (default 1 2 3).  Result: reports/power.json
{id: {property, seeds: {seed: exit code}, detected: n, of: m}}."""
import json, os, subprocess, sys, tempfile
from concurrent.futures import ThreadPoolExecutor
HERE = os.path.dirname(os.path.dirname(os.path.abspath(__file__)))
seeds = [int(x) for x in sys.argv[1:]] or [1, 2, 3]
out_path = os.path.join(HERE, "reports", "power.json")
res = json.load(open(out_path)) if os.path.exists(out_path) else {}


def one(sid):
    d = os.path.join(HERE, "seeded", sid)
    prop = json.load(open(os.path.join(d, "meta.json")))["breaks_property"]
    wt = tempfile.mkdtemp(prefix="pw_", dir="/tmp")
    os.rmdir(wt)
    subprocess.run(["git", "-C", "/repo", "worktree", "add", "-q", "--detach", wt, "HEAD"], check=True)
    row = {"property": prop, "seeds": {}}
    try:
        subprocess.run(["git", "-C", wt, "apply", os.path.join(d, "patch.diff")], check=True)
        for sd in seeds:
            env = dict(os.environ, VERIF_REPO=wt, VERIF_REPLAY_DIR=os.path.join(wt, "_replays"), VERIF_EVIDENCE_DIR=os.path.join(wt, "_evidence"), VERIF_WORKERS="8")
            p = subprocess.run(["/venv/bin/python", os.path.join(HERE, "check.py"), prop, "--seed", str(sd)], cwd=HERE, env=env, capture_output=True, text=True)
            row["seeds"][str(sd)] = p.returncode
    finally:
        subprocess.run(["git", "-C", "/repo", "worktree", "remove", "--force", wt])
    row["detected"] = sum(1 for v in row["seeds"].values() if v == 1)
    row["of"] = len(row["seeds"])
    print(sid, prop, row["seeds"], flush=True)
    return sid, row


ids = [s for s in sorted(os.listdir(os.path.join(HERE, "seeded"))) if s not in res]
with ThreadPoolExecutor(2) as ex:
    for sid, row in ex.map(one, ids):
        res[sid] = row
        json.dump(res, open(out_path, "w"), indent=1, sort_keys=True)
weak = {k: v for k, v in res.items() if v["detected"] < v["of"]}
print("changes not detected on every seed:", json.dumps(weak, indent=1))
