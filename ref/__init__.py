"""Reference model: documented meaning of every element kind, three-valued; never builds a z3 expression."""
