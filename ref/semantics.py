"""Documented meaning of every element kind, evaluated on a candidate schedule.

Three-valued: V (valid), I (invalid), U (unspecified: the documentation does not decide).
An alarm for soundness needs I; an alarm for completeness needs V on *every* element.

A candidate (``Cand``) holds only what a user can read off a solution, plus - when it
came from a run - the engine model snapshot keyed by handle names (selection Booleans,
applied flags, unit workers of cumulative workers).
"""
from __future__ import annotations

from fractions import Fraction

V, I, U = "V", "I", "U"


def k_and(vals):
    vals = list(vals)
    if any(v == I for v in vals):
        return I
    if any(v == U for v in vals):
        return U
    return V


def k_or(vals):
    vals = list(vals)
    if any(v == V for v in vals):
        return V
    if any(v == U for v in vals):
        return U
    return I


def k_not(v):
    return {V: I, I: V, U: U}[v]


def b3(b):
    return V if b else I


class T:
    __slots__ = ("s", "e", "d", "x")

    def __init__(self, s, e, d, x):
        self.s, self.e, self.d, self.x = s, e, d, x

    def as_list(self):
        return [self.s, self.e, self.d, self.x]


class Cand:
    def __init__(self):
        self.horizon = None
        self.tasks = {}
        self.assign = {}      # resource name -> [(task, lo, hi)]
        self.task_res = {}    # task -> [resource names]
        self.buffers = {}     # buffer -> (levels, times)
        self.indicators = {}  # reported name -> value
        self.model = None     # handle name -> value (engine model) or None
        self.sel = {}         # (select id, worker) -> bool  (generated candidates only)

    def to_json(self):
        return {
            "horizon": self.horizon,
            "tasks": {k: t.as_list() for k, t in self.tasks.items()},
            "assign": {k: [list(a) for a in v] for k, v in self.assign.items()},
            "buffers": {k: [list(v[0]), list(v[1])] for k, v in self.buffers.items()},
            "indicators": dict(self.indicators),
        }


def cand_from_solution(sol: dict, model=None) -> Cand:
    """``sol`` is the plain-dict view of a SchedulingSolution made by sim.world.sol_to_dict."""
    c = Cand()
    c.horizon = sol["horizon"]
    for name, t in sol["tasks"].items():
        c.tasks[name] = T(t["start"], t["end"], t["duration"], bool(t["scheduled"]))
        c.task_res[name] = list(t["assigned_resources"])
    for name, r in sol["resources"].items():
        c.assign[name] = [tuple(a) for a in r["assignments"]]
    for name, b in sol["buffers"].items():
        c.buffers[name] = (list(b["level"]), list(b["level_change_times"]))
    c.indicators = dict(sol["indicators"])
    c.model = model
    return c


# --------------------------------------------------------------------------------------
# spec helpers
# --------------------------------------------------------------------------------------
class SpecView:
    def __init__(self, spec):
        self.spec = spec
        self.task = {t["id"]: t for t in spec["tasks"]}
        self.worker = {w["id"]: w for w in spec.get("workers", [])}
        self.cumul = {c["id"]: c for c in spec.get("cumulative", [])}
        self.select = {s["id"]: s for s in spec.get("selects", [])}
        self.buffer = {b["id"]: b for b in spec.get("buffers", [])}
        self.indicator = {i["id"]: i for i in spec.get("indicators", [])}
        self.assign = spec.get("assign", [])

    def task_kind(self, tid):
        t = self.task[tid]
        return ("opt-" if t.get("optional") else "") + t["kind"]

    def unit_names(self, cid):
        return [f"{cid}_CumulativeWorker_{i+1}" for i in range(self.cumul[cid]["size"])]

    def unit_productivities(self, cid):
        c = self.cumul[cid]
        p, n = c.get("productivity", 1), c["size"]
        return [p // n + p % n] + [p // n] * (n - 1)

    def select_workers_flat(self, sid):
        """worker names the selection has Booleans for (as the library names them)."""
        return list(self.select[sid]["workers"])

    def uses_of(self, res_id):
        return [a for a in self.assign if a["resource"] == res_id]

    def plain_worker_uses(self, wid):
        """(task, how) for every way the plain worker wid can get busy."""
        out = []
        for a in self.assign:
            if a["resource"] == wid:
                out.append((a["task"], a))
            elif a["resource"] in self.select and wid in self.select[a["resource"]]["workers"]:
                out.append((a["task"], a))
        return out


def olap(lo, hi, a, b):
    """length of the intersection of [lo,hi] and [a,b] (0 when they only touch)."""
    return max(0, min(hi, b) - max(lo, a))


# --------------------------------------------------------------------------------------
# Findings
# --------------------------------------------------------------------------------------
class Findings:
    def __init__(self):
        self.items = []
        self.unspecified = 0
        self.unspec_rules = {}
        self.checked = 0

    def add(self, prop, rule, kinds, status, detail=None):
        self.checked += 1
        if status == U:
            self.unspecified += 1
            k = f"{prop}/{rule.split(chr(47))[0]}"
            self.unspec_rules[k] = self.unspec_rules.get(k, 0) + 1
        if status == I:
            self.items.append({"prop": prop, "rule": rule, "kinds": sorted(set(kinds)), "detail": detail})

    def invalid(self, props=None):
        if props is None:
            return self.items
        return [i for i in self.items if i["prop"] in props]


# --------------------------------------------------------------------------------------
# C01 task timing
# --------------------------------------------------------------------------------------
def eval_tasks(sv: SpecView, c: Cand, f: Findings):
    for tid, ts in sv.task.items():
        t = c.tasks.get(tid)
        k = [sv.task_kind(tid)]
        if t is None:
            f.add("C11", "task_missing", k, I, tid)
            continue
        if not t.x:
            if not ts.get("optional"):
                f.add("C11", "mandatory_unscheduled", k, I, tid)
            continue
        f.add("C01", "start_nonneg", k, b3(t.s >= 0), [tid, t.s])
        f.add("C01", "end_le_horizon", k, b3(t.e <= c.horizon), [tid, t.e, c.horizon])
        f.add("C01", "span_eq_duration", k, b3(t.e - t.s == t.d), [tid, t.s, t.e, t.d])
        if ts["kind"] == "fixed":
            ok = t.d == ts["duration"]
        elif ts["kind"] == "zero":
            ok = t.d == 0
        else:
            ok = t.d >= ts.get("min", 0) or False
            if ts.get("min") is None:
                ok = t.d >= 0
            if ts.get("max") is not None and t.d > ts["max"]:
                ok = False
            if ts.get("allowed") is not None and t.d not in ts["allowed"]:
                ok = False
        f.add("C01", "duration_rule", k, b3(ok), [tid, t.d])
        if ts.get("release") is not None:
            f.add("C01", "release", k, b3(t.s >= ts["release"]), [tid, t.s, ts["release"]])
        if ts.get("due") is not None and ts.get("deadline", True):
            f.add("C01", "deadline", k, b3(t.e <= ts["due"]), [tid, t.e, ts["due"]])


# --------------------------------------------------------------------------------------
# C02 resources
# --------------------------------------------------------------------------------------
def _entries(c: Cand, res, tid):
    return [(lo, hi) for (tk, lo, hi) in c.assign.get(res, []) if tk == tid]


def chosen_workers(sv, c, sid, tid):
    """workers of selection sid that hold an assignment for task tid (user-visible)."""
    out = []
    for w in sv.select[sid]["workers"]:
        if w in sv.cumul:
            continue
        if _entries(c, w, tid):
            out.append(w)
    return out


def eval_resources(sv: SpecView, c: Cand, f: Findings):
    # pairwise non-overlap on plain workers
    for wid in sv.worker:
        ivs = c.assign.get(wid, [])
        st = V
        bad = None
        for i in range(len(ivs)):
            for j in range(i + 1, len(ivs)):
                _, a1, b1 = ivs[i]
                _, a2, b2 = ivs[j]
                if b1 < a1 or b2 < a2:
                    continue  # reversed spans are reported by dynamic_span
                if b1 > a1 and b2 > a2:
                    if olap(a1, b1, a2, b2) > 0:
                        st, bad = I, [wid, ivs[i], ivs[j]]
                else:
                    # a zero-length interval strictly inside another: unspecified
                    z, (p, q) = ((a1, (a2, b2)) if b1 == a1 else (a2, (a1, b1)))
                    if p < z < q and st != I:
                        st = U
        kinds = ["Worker"]
        if bad:
            kinds += [sv.task_kind(bad[1][0]), sv.task_kind(bad[2][0])]
        f.add("C02", "worker_overlap", kinds, st, bad)
    # cumulative capacity
    for cid, cs in sv.cumul.items():
        ivs = [(tk, lo, hi) for (tk, lo, hi) in c.assign.get(cid, []) if hi > lo]
        pts = sorted(set(lo for _, lo, _ in ivs))
        worst = 0
        for p in pts:
            n = len(set(tk for tk, lo, hi in ivs if lo <= p < hi))
            worst = max(worst, n)
        st = b3(worst <= cs["size"])
        if st == V:
            # a zero-length use at an instant where every unit is busy: whether it needs a
            # free unit is not documented
            for tk, lo, hi in c.assign.get(cid, []):
                if hi == lo:
                    n = len(set(t2 for t2, a, b in ivs if a < lo < b))
                    if n + 1 > cs["size"]:
                        st = U
        f.add("C02", "cumulative_capacity", ["CumulativeWorker"], st, [cid, worst, cs["size"]])
    # assignments
    for a in sv.assign:
        tid, rid = a["task"], a["resource"]
        t = c.tasks.get(tid)
        if t is None:
            continue
        tk = sv.task_kind(tid)
        if not t.x:
            # inertness of unscheduled tasks is C06 / C11
            continue
        if rid in sv.worker:
            ent = _entries(c, rid, tid)
            if a.get("dynamic"):
                ok = len(ent) == 1 and t.s <= ent[0][0] <= ent[0][1] <= t.e
                f.add("C02", "dynamic_span", ["Worker", "dynamic", tk], b3(ok), [tid, rid, ent, t.s, t.e])
            else:
                want = (t.s + a.get("delay_in", 0), t.e - a.get("early_out", 0))
                ok = ent == [want]
                kinds = ["Worker", tk] + (["delayed"] if a.get("delay_in") or a.get("early_out") else [])
                if want[0] < 0 or want[1] < 0:
                    st = U  # the report filters negative points; C01 speaks about those
                else:
                    st = b3(ok)
                f.add("C02", "assignment_span", kinds, st, [tid, rid, ent, want])
        elif rid in sv.cumul:
            ent = _entries(c, rid, tid)
            st = b3(ent == [(t.s, t.e)]) if t.s >= 0 else U
            f.add("C02", "assignment_span", ["CumulativeWorker", tk], st, [tid, rid, ent, (t.s, t.e)])
        elif rid in sv.select:
            s = sv.select[rid]
            if any(w in sv.cumul for w in s["workers"]):
                f.add("C02", "selection_count", ["SelectWorkers", "CumulativeWorker"], U)
                continue
            if t.s < 0:
                f.add("C02", "selection_count", ["SelectWorkers", tk], U)
                continue
            ch = chosen_workers(sv, c, rid, tid)
            n, kind = s.get("nb", 1), s.get("kind", "exact")
            ok = len(ch) == n if kind == "exact" else len(ch) >= n if kind == "min" else len(ch) <= n
            f.add("C02", "selection_count", ["SelectWorkers", tk], b3(ok), [tid, rid, ch, n, kind])
            span_ok = all(_entries(c, w, tid) == [(t.s, t.e)] for w in ch)
            f.add("C02", "selection_span", ["SelectWorkers", tk], b3(span_ok), [tid, rid, ch])
            # membership: a worker outside the list must not be reported for this task
            # unless another requirement of the task names it
            allowed = set()
            for a2 in sv.assign:
                if a2["task"] == tid:
                    if a2["resource"] in sv.select:
                        allowed.update(sv.select[a2["resource"]]["workers"])
                    else:
                        allowed.add(a2["resource"])
            extra = [r for r in c.task_res.get(tid, []) if r not in allowed]
            f.add("C02", "selection_membership", ["SelectWorkers", tk], b3(not extra), [tid, extra])
    # work amounts
    for tid, ts in sv.task.items():
        if not ts.get("work"):
            continue
        t = c.tasks.get(tid)
        if t is None or not t.x:
            continue
        uses = [a for a in sv.assign if a["task"] == tid]
        if not uses:
            continue
        total = 0
        st = None
        kinds = [sv.task_kind(tid), "work_amount"]
        for a in uses:
            rid = a["resource"]
            if rid in sv.worker:
                for lo, hi in _entries(c, rid, tid):
                    total += sv.worker[rid].get("productivity", 1) * (hi - lo)
                kinds.append("Worker")
            elif rid in sv.select:
                kinds.append("SelectWorkers")
                for w in sv.select[rid]["workers"]:
                    if w in sv.cumul:
                        st = U
                        continue
                    for lo, hi in _entries(c, w, tid):
                        total += sv.worker[w].get("productivity", 1) * (hi - lo)
            elif rid in sv.cumul:
                kinds.append("CumulativeWorker")
                if c.model is None:
                    st = U
                    continue
                for u, p in zip(sv.unit_names(rid), sv.unit_productivities(rid)):
                    lo = c.model.get(f"lo:{u}:{tid}")
                    hi = c.model.get(f"hi:{u}:{tid}")
                    if lo is None or hi is None:
                        st = U
                    elif lo >= 0:
                        total += p * (hi - lo)
        if st is None:
            st = b3(total >= ts["work"])
        f.add("C02", "work_amount", kinds, st, [tid, total, ts["work"]])


# --------------------------------------------------------------------------------------
# constraint meanings (C03, C04, C06 rules, C10)
# --------------------------------------------------------------------------------------
def eval_expr(e, sv, c):
    """python value of a spec expression, or None when it reads the times of an
    unscheduled task / an unreported indicator (unspecified)."""
    if isinstance(e, (int, bool)):
        return e
    op = e[0]
    if op == "py":
        return bool(e[1])
    if op in ("s", "e", "d"):
        t = c.tasks.get(e[1])
        if t is None or not t.x:
            return None
        return {"s": t.s, "e": t.e, "d": t.d}[op]
    if op == "x":
        t = c.tasks.get(e[1])
        return None if t is None else bool(t.x)
    if op == "H":
        return c.horizon
    if op == "ind":
        return c.ind_values.get(e[1]) if hasattr(c, "ind_values") else None
    if op in ("and", "or"):
        vals = [eval_expr(x, sv, c) for x in e[1:]]
        if op == "and":
            if any(v is False for v in vals):
                return False
            return None if any(v is None for v in vals) else True
        if any(v is True for v in vals):
            return True
        return None if any(v is None for v in vals) else False
    if op == "not":
        v = eval_expr(e[1], sv, c)
        return None if v is None else (not v)
    a, b = eval_expr(e[1], sv, c), eval_expr(e[2], sv, c)
    if a is None or b is None:
        return None
    return {"+": lambda: a + b, "-": lambda: a - b, "*": lambda: a * b, "<": lambda: a < b, "<=": lambda: a <= b,
            "==": lambda: a == b, "!=": lambda: a != b, ">=": lambda: a >= b, ">": lambda: a > b}[op]()


def expr3(e, sv, c):
    v = eval_expr(e, sv, c)
    return U if v is None else b3(bool(v))


def _cmp(mode, a, b):
    return a == b if mode == "exact" else a >= b if mode == "min" else a <= b


def resource_busy(sv, c, rid):
    """[(task, lo, hi)] the resource is reported busy; None when not derivable."""
    if rid in sv.worker or rid in sv.cumul:
        return list(c.assign.get(rid, []))
    return None


def unit_busy(sv, c, cid):
    """per-unit busy intervals of a cumulative worker read from the engine model."""
    if c.model is None:
        return None
    out = []
    for u in sv.unit_names(cid):
        for a in sv.assign:
            if a["resource"] != cid:
                continue
            lo = c.model.get(f"lo:{u}:{a['task']}")
            hi = c.model.get(f"hi:{u}:{a['task']}")
            if lo is None or hi is None:
                return None
            if lo >= 0 and hi >= 0:
                out.append((a["task"], lo, hi))
    return out


def periodic_windows(cs, upto):
    """[(a, b, fully_active)] instances of the periodic windows intersecting [-p, upto]."""
    p, o = cs["period"], cs.get("offset", 0)
    S, E = cs.get("start", 0), cs.get("end")
    out = []
    for a, b in cs["intervals"]:
        k = -2
        while a + o + k * p <= upto:
            lo, hi = a + o + k * p, b + o + k * p
            if hi > -p:
                active = lo >= S and (E is None or hi <= E)
                out.append((lo, hi, active))
            k += 1
    return out


def meaning(cs, sv: SpecView, c: Cand):
    """Meaning of one constraint spec taken as a relation (its optional flag ignored)."""
    k = cs["kind"]
    Tk = c.tasks

    def sched(*ids):
        return all(Tk[i].x for i in ids)

    if k in ("TaskStartAt", "TaskStartAfter", "TaskEndAt", "TaskEndBefore"):
        t = Tk[cs["task"]]
        if not t.x:
            return V
        v, mode = cs["value"], cs.get("mode", "lax")
        if k == "TaskStartAt":
            return b3(t.s == v)
        if k == "TaskEndAt":
            return b3(t.e == v)
        if k == "TaskStartAfter":
            return b3(t.s > v if mode == "strict" else t.s >= v)
        return b3(t.e < v if mode == "strict" else t.e <= v)
    if k == "TaskPrecedence" and (cs["before"] not in Tk or cs["after"] not in Tk):
        # precedence between task groups: the group bounds are auxiliary unknowns enclosing the
        # scheduled members, so it holds iff every scheduled member of the first group ends
        # (plus offset) before every scheduled member of the second starts; "tight" leaves
        # slack in the bounds and is only judged in the negative direction.
        groups = {x["id"]: x for x in sv.spec.get("constraints", []) if x["kind"] in ("UnorderedTaskGroup", "OrderedTaskGroup")}
        def members(ref):
            if ref in Tk:
                return [Tk[ref]] if Tk[ref].x else []
            g = groups.get(ref)
            if g is None:
                return None
            return [Tk[i] for i in g["tasks"] if Tk[i].x]
        A, B = members(cs["before"]), members(cs["after"])
        if A is None or B is None:
            return U
        if any(t.optional for t in ()):  # pragma: no cover
            return U
        if not A or not B:
            return U  # an empty side: the free group bounds still have to be ordered - not documented
        mode, off = cs.get("mode", "lax"), cs.get("offset", 0)
        worst = max(t.e for t in A) + off
        first = min(t.s for t in B)
        if mode == "strict":
            return b3(worst < first)
        if mode == "lax":
            return b3(worst <= first)
        return U if worst <= first else I
    if k == "TaskPrecedence":
        a, b = Tk[cs["before"]], Tk[cs["after"]]
        if not (a.x and b.x):
            return V
        lhs, mode = a.e + cs.get("offset", 0), cs.get("mode", "lax")
        return b3(lhs <= b.s if mode == "lax" else lhs < b.s if mode == "strict" else lhs == b.s)
    if k in ("TasksStartSynced", "TasksEndSynced", "TasksDontOverlap"):
        a, b = Tk[cs["t1"]], Tk[cs["t2"]]
        if not (a.x and b.x):
            return V
        if k == "TasksStartSynced":
            return b3(a.s == b.s)
        if k == "TasksEndSynced":
            return b3(a.e == b.e)
        d1, d2 = b.s >= a.e, a.s >= b.e
        if d1 and d2:
            return U  # only possible with zero-length tasks; both orders hold
        return b3(d1 or d2)
    if k == "TasksContiguous":
        ts = [Tk[i] for i in cs["tasks"] if Tk[i].x]
        if len(ts) < 2:
            return V
        if len(set(t.s for t in ts)) < len(ts) or len(set(t.e for t in ts)) < len(ts):
            return U
        if any(t.e <= t.s for t in ts):
            return U  # a zero-length member: "consecutive" is not defined by the docs
        ts.sort(key=lambda t: t.s)
        return b3(all(ts[i + 1].s == ts[i].e for i in range(len(ts) - 1)))
    if k in ("UnorderedTaskGroup", "OrderedTaskGroup"):
        ids = cs["tasks"]
        # like every task constraint it binds the scheduled members only (docs: "if the task
        # is optional these constraints apply only if the task is scheduled")
        ts = [Tk[i] for i in ids if Tk[i].x]
        ok = True
        if ts and cs.get("interval") is not None:
            a, b = cs["interval"]
            ok = all(t.s >= a and t.e <= b for t in ts)
        elif ts and cs.get("length") is not None:
            ok = max(t.e for t in ts) - min(t.s for t in ts) <= cs["length"]
        # neither given: no window (the window is optional)
        if k == "OrderedTaskGroup" and ok:
            mode = cs.get("mode", "lax")
            for i in range(len(ids) - 1):
                p, q = Tk[ids[i]], Tk[ids[i + 1]]
                if not (p.x and q.x):
                    continue  # the order is stated between consecutive list members, both scheduled
                a, b = p.e, q.s
                if not (a <= b if mode == "lax" else a < b if mode == "strict" else a == b):
                    ok = False
        return b3(ok)
    if k == "ScheduleNTasksInTimeIntervals":
        ivs = cs["intervals"]
        if cs.get("mode", "exact") != "min":
            # overlapping intervals: whether a task in the overlap counts once or twice for an
            # upper count is not documented ("min" is unaffected: a task is inside or it is not)
            for i in range(len(ivs)):
                for j in range(i + 1, len(ivs)):
                    if olap(ivs[i][0], ivs[i][1], ivs[j][0], ivs[j][1]) > 0 or ivs[i] == ivs[j]:
                        return U
        n = 0
        for i in cs["tasks"]:
            t = Tk[i]
            if t.x and any(t.s >= a and t.e <= b for a, b in ivs):
                n += 1
        return b3(_cmp(cs.get("mode", "exact"), n, cs["nb"]))
    if k == "OptionalTaskForceSchedule":
        return b3(Tk[cs["task"]].x == bool(cs["flag"]))
    if k == "OptionalTaskConditionSchedule":
        v = eval_expr(cs["cond"], sv, c)
        if v is None:
            return U
        return b3(Tk[cs["task"]].x == bool(v))
    if k == "OptionalTasksDependency":
        a, b = Tk[cs["t1"]].x, Tk[cs["t2"]].x
        if a and not b:
            return I
        if b and not a:
            return U  # docstring says iff, prose says if-then
        return V
    if k == "ForceScheduleNOptionalTasks":
        n = sum(1 for i in cs["tasks"] if Tk[i].x)
        return b3(_cmp(cs.get("mode", "exact"), n, cs["nb"]))
    if k in ("TaskLoadBuffer", "TaskUnloadBuffer"):
        return V  # buffers are checked as a whole (C09)
    # ---- resource constraints ----
    if k == "ResourceUnavailable":
        busy = resource_busy(sv, c, cs["resource"])
        st = V
        for _, lo, hi in busy:
            for a, b in cs["intervals"]:
                if hi > lo:
                    if olap(lo, hi, a, b) > 0:
                        return I
                elif a < lo < b:
                    st = U
        return st
    if k == "ResourcePeriodicallyUnavailable":
        if any(b > cs["period"] or a < 0 or b <= a for a, b in cs["intervals"]):
            return U
        busy = resource_busy(sv, c, cs["resource"])
        S, E = cs.get("start", 0), cs.get("end")
        st = V
        for _, lo, hi in busy:
            if (S > 0 and hi <= S) or (E is not None and lo >= E):
                continue
            for a, b, active in periodic_windows(cs, hi + cs["period"]):
                if hi > lo and olap(lo, hi, a, b) > 0:
                    if active:
                        return I
                    st = U
                elif hi == lo and a < lo < b:
                    st = U
        return st
    if k == "WorkLoad":
        rid = cs["resource"]
        if rid in sv.cumul:
            busy = unit_busy(sv, c, rid)
            if busy is None:
                return U
            per_task = {}
            for tk, lo, hi in busy:
                per_task[tk] = per_task.get(tk, 0) + 1
            multi = any(n > 1 for n in per_task.values())
        else:
            busy = resource_busy(sv, c, rid)
            multi = False
        res = V
        for a, b, n in cs["intervals"]:
            tot = sum(olap(lo, hi, a, b) for _, lo, hi in busy if hi > lo)
            ok = _cmp(cs.get("mode", "max"), tot, n)
            if not ok:
                if multi:
                    res = U if res != I else I
                else:
                    return I
        return res
    if k in ("ResourceTasksDistance", "ResourceNonDelay"):
        busy = resource_busy(sv, c, cs["resource"])
        if cs["resource"] in sv.cumul:
            return U
        busy = sorted(busy, key=lambda x: (x[1], x[2]))
        if len(set(x[1] for x in busy)) < len(busy) or len(set(x[2] for x in busy)) < len(busy):
            return U
        if any(hi <= lo for _, lo, hi in busy):
            return U  # zero-length / reversed spans: "consecutive tasks" is undefined
        st = V
        for i in range(len(busy) - 1):
            gap = busy[i + 1][1] - busy[i][2]
            if k == "ResourceNonDelay":
                if gap != 0:
                    return I
                continue
            ivs = cs.get("intervals")
            if ivs is not None:
                p, q = busy[i][2], busy[i + 1][1]
                both = any(a <= p <= b and a <= q <= b for a, b in ivs)
                one = any(a <= p <= b for a, b in ivs) or any(a <= q <= b for a, b in ivs)
                if not both:
                    if one:
                        st = U if st == V else st
                    continue
            mode = cs.get("mode", "exact")
            if not _cmp(mode, gap, cs["distance"]):
                return I
        return st
    if k in ("ResourceInterrupted", "ResourcePeriodicallyInterrupted"):
        rid = cs["resource"]
        busy = resource_busy(sv, c, rid)
        if rid in sv.cumul:
            return U
        periodic = k == "ResourcePeriodicallyInterrupted"
        if periodic and any(b > cs["period"] or a < 0 or b <= a for a, b in cs["intervals"]):
            return U
        st = V
        for tk, lo, hi in busy:
            ts = sv.task[tk]
            use = [a for a in sv.assign if a["task"] == tk and (a["resource"] == rid or (a["resource"] in sv.select and rid in sv.select[a["resource"]]["workers"]))]
            if any(a.get("dynamic") or a.get("delay_in") or a.get("early_out") for a in use):
                st = U
                continue
            if ts["kind"] == "zero" or hi <= lo:
                st = U
                continue
            if periodic:
                S, E = cs.get("start", 0), cs.get("end")
                if (S > 0 and hi <= S) or (E is not None and lo >= E):
                    continue
                if hi - lo > cs["period"]:
                    st = U
                    continue
                wins = periodic_windows(cs, hi + cs["period"])
                if any(not act and olap(lo, hi, a, b) > 0 for a, b, act in wins):
                    st = U
                    continue
                wins = [(a, b) for a, b, act in wins]
            else:
                wins = [tuple(x) for x in cs["intervals"]]
            if ts["kind"] == "fixed":
                if any(olap(lo, hi, a, b) > 0 for a, b in wins):
                    return I
            else:
                # neither starts nor ends strictly inside a window, and lengthened by the
                # windows it spans
                if any(a < lo < b or a < hi < b for a, b in wins):
                    return I
                inside = sum(b - a for a, b in wins if lo <= a and b <= hi)
                d = c.tasks[tk].d
                if d < ts.get("min", 0) + inside:
                    return I
                if ts.get("max") is not None and d > ts["max"] + inside:
                    return I
        return st
    if k in ("SameWorkers", "DistinctWorkers"):
        s1, s2 = cs["s1"], cs["s2"]
        if s1 not in sv.select or s2 not in sv.select:
            return U
        common = [w for w in sv.select[s1]["workers"] if w in sv.select[s2]["workers"]]
        st = V
        for w in common:
            a = _sel_value(c, s1, w)
            b = _sel_value(c, s2, w)
            if a is None or b is None:
                st = U
                continue
            if k == "SameWorkers" and a != b:
                return I
            if k == "DistinctWorkers" and a and b:
                return I
        # selections whose tasks are all unscheduled leave no visible trace
        for sid in (s1, s2):
            users = [a["task"] for a in sv.assign if a["resource"] == sid]
            if not users or not any(c.tasks[t].x for t in users):
                return U if st == V else st
        return st
    # ---- logic ----
    if k == "Not":
        return k_not(operand_meaning(cs["arg"], sv, c))
    if k == "And":
        return k_and(operand_meaning(x, sv, c) for x in cs["args"])
    if k == "Or":
        return k_or(operand_meaning(x, sv, c) for x in cs["args"])
    if k == "Xor":
        a, b = operand_meaning(cs["a"], sv, c), operand_meaning(cs["b"], sv, c)
        if U in (a, b):
            return U
        return b3(a != b)
    if k == "Implies":
        cond = expr3(cs["cond"], sv, c)
        body = k_and(operand_meaning(x, sv, c) for x in cs["args"])
        return k_or([k_not(cond), body])
    if k == "IfThenElse":
        cond = expr3(cs["cond"], sv, c)
        th = k_and(operand_meaning(x, sv, c) for x in cs["then"])
        el = k_and(operand_meaning(x, sv, c) for x in cs["else"])
        return k_or([k_and([cond, th]), k_and([k_not(cond), el])])
    if k == "ConstraintFromExpression":
        return expr3(cs["expr"], sv, c)
    if k == "ForceApplyNOptionalConstraints":
        if c.model is None:
            # generated candidate: the applied flags are existential.  Any subset of the
            # optional constraints that hold can be applied, so the achievable counts are
            # 0 .. (number that hold).
            by_id = {x["id"]: x for x in sv.spec.get("constraints", [])}
            sts = [meaning(by_id[x], sv, c) for x in cs["constraints"] if x in by_id]
            if len(sts) != len(cs["constraints"]) or U in sts:
                return U
            can = sum(1 for x in sts if x == V)
            mode, n = cs.get("mode", "exact"), cs["nb"]
            return b3(True if mode == "max" else can >= n)
        vals = [c.model.get(f"app:{x}") for x in cs["constraints"]]
        if any(v is None for v in vals):
            return U
        return b3(_cmp(cs.get("mode", "exact"), sum(1 for v in vals if v), cs["nb"]))
    if k == "IndicatorTarget":
        v = _ind_value(sv, c, cs["indicator"])
        return U if v is None else b3(v == cs["value"])
    if k == "IndicatorBounds":
        v = _ind_value(sv, c, cs["indicator"])
        if v is None:
            return U
        ok = (cs.get("lower") is None or v >= cs["lower"]) and (cs.get("upper") is None or v <= cs["upper"])
        return b3(ok)
    raise ValueError(f"no meaning for {k}")


def _sel_value(c, sid, w):
    if c.model is not None:
        return c.model.get(f"sel:{sid}:{w}")
    return c.sel.get((sid, w))


def _ind_value(sv, c, iid):
    if hasattr(c, "ind_values"):
        return c.ind_values.get(iid)
    return None


def operand_meaning(x, sv, c):
    if "kind" in x:
        m = meaning(x, sv, c)
        if x.get("optional"):
            # the own meaning of an optional constraint is "applied implies relation"
            if c.model is not None:
                a = c.model.get(f"app:{x['id']}")
            else:
                a = getattr(c, "applied_guess", {}).get(x["id"])
            if a is None:
                return U
            return k_or([b3(not a), m])
        return m
    return expr3(x["expr"], sv, c)


def optional_operand_ids(spec):
    """ids of optional constraints used as operands of a connective"""
    out = []

    def walk(cs, nested):
        if nested and cs.get("optional"):
            out.append(cs["id"])
        for key in ("arg", "a", "b"):
            if isinstance(cs.get(key), dict) and "kind" in cs[key]:
                walk(cs[key], True)
        for key in ("args", "then", "else"):
            for x in cs.get(key, []) or []:
                if isinstance(x, dict) and "kind" in x:
                    walk(x, True)
    for cs in spec.get("constraints", []):
        walk(cs, False)
    return out


TASK_CONSTRAINTS = {"TaskStartAt", "TaskStartAfter", "TaskEndAt", "TaskEndBefore", "TaskPrecedence", "TasksStartSynced",
                    "TasksEndSynced", "TasksDontOverlap", "TasksContiguous", "UnorderedTaskGroup", "OrderedTaskGroup",
                    "ScheduleNTasksInTimeIntervals"}
OPTIONAL_RULES = {"OptionalTaskForceSchedule", "OptionalTaskConditionSchedule", "OptionalTasksDependency", "ForceScheduleNOptionalTasks"}
RESOURCE_CONSTRAINTS = {"WorkLoad", "ResourceUnavailable", "ResourcePeriodicallyUnavailable", "ResourceTasksDistance",
                        "ResourceNonDelay", "ResourceInterrupted", "ResourcePeriodicallyInterrupted", "SameWorkers", "DistinctWorkers"}
LOGIC = {"Not", "And", "Or", "Xor", "Implies", "IfThenElse", "ConstraintFromExpression"}
INDICATOR_CONSTRAINTS = {"IndicatorTarget", "IndicatorBounds"}


def _subcase(cs):
    k = cs["kind"]
    if "mode" in cs and cs["mode"] is not None:
        return f"{k}.{cs['mode']}"
    return k


def _kinds_of_constraint(cs, sv):
    """coarse qualifiers for signatures: constraint kind, whether a zero-duration /
    optional / variable-duration task is involved, whether the resource is cumulative"""
    from sim.spec import all_constraint_tasks
    kinds = [cs["kind"]]
    tids = [t for t in all_constraint_tasks(cs) if t in sv.task]
    rid = cs.get("resource")
    if rid is not None:
        kinds.append("CumulativeWorker" if rid in sv.cumul else "Worker")
        for a in sv.assign:
            if a["resource"] == rid or (a["resource"] in sv.select and rid in sv.select[a["resource"]]["workers"]):
                tids.append(a["task"])
    for t in tids:
        ts = sv.task[t]
        if ts["kind"] == "zero":
            kinds.append("zero")
        if ts.get("optional"):
            kinds.append("optional")
    return kinds


def eval_constraints(sv: SpecView, c: Cand, f: Findings):
    for cs in sv.spec.get("constraints", []):
        k = cs["kind"]
        if k in ("TaskLoadBuffer", "TaskUnloadBuffer"):
            continue
        st = meaning(cs, sv, c)
        kinds = _kinds_of_constraint(cs, sv)
        if cs.get("optional"):
            if c.model is None:
                # generated candidate: an optional constraint may be left unapplied, so it
                # excludes nothing - unless a force-apply rule counts it (then: unspecified)
                continue  # (a force-apply rule that counts it is judged at that rule)
            applied = c.model.get(f"app:{cs['id']}")
            if applied is None:
                f.add("C10", "applied_not_holding", kinds, U)
            elif applied:
                f.add("C10", "applied_not_holding/" + _subcase(cs), kinds, st, cs["id"])
            continue
        if k in TASK_CONSTRAINTS:
            f.add("C03", _subcase(cs), kinds, st, cs["id"])
        elif k in OPTIONAL_RULES:
            f.add("C06", "optional_rule/" + _subcase(cs), kinds, st, cs["id"])
        elif k in RESOURCE_CONSTRAINTS:
            f.add("C04", _subcase(cs), kinds, st, cs["id"])
        elif k in LOGIC:
            rule = "expression_not_enforced" if k == "ConstraintFromExpression" else "formula_false/" + formula_path(cs)
            f.add("C10", rule, kinds, st, cs["id"])
        elif k == "ForceApplyNOptionalConstraints":
            f.add("C10", "force_apply_count/" + cs.get("mode", "exact"), kinds, st, cs["id"])
        elif k in INDICATOR_CONSTRAINTS:
            f.add("C08", k, kinds, st, cs["id"])


def formula_path(cs, depth=0):
    k = cs["kind"]
    subs = []
    for key in ("arg", "a", "b"):
        if isinstance(cs.get(key), dict):
            subs.append(cs[key])
    for key in ("args", "then", "else"):
        subs.extend(cs.get(key, []) or [])
    inner = sorted(set(formula_path(x, depth + 1) if "kind" in x else "expr" for x in subs))
    if depth >= 2 or not inner:
        return k
    return k + "(" + ",".join(inner) + ")"


# --------------------------------------------------------------------------------------
# C09 buffers
# --------------------------------------------------------------------------------------
def buffer_events(sv, c, bid, include_unscheduled=False):
    ev = []
    for cs in sv.spec.get("constraints", []):
        if cs["kind"] in ("TaskLoadBuffer", "TaskUnloadBuffer") and cs["buffer"] == bid:
            t = c.tasks[cs["task"]]
            if not t.x and not include_unscheduled:
                continue
            if cs["kind"] == "TaskUnloadBuffer":
                ev.append((t.s, -cs["quantity"], cs["task"]))
            else:
                ev.append((t.e, +cs["quantity"], cs["task"]))
    return ev


def eval_buffers(sv: SpecView, c: Cand, f: Findings):
    for bid, bs in sv.buffer.items():
        kinds = ["ConcurrentBuffer" if bs.get("concurrent") else "NonConcurrentBuffer"]
        rep = c.buffers.get(bid)
        if rep is None:
            f.add("C11", "buffer_missing", kinds, I, bid)
            continue
        levels, times = rep
        all_ev = buffer_events(sv, c, bid, include_unscheduled=True)
        ev = buffer_events(sv, c, bid)
        has_unsched = len(ev) != len(all_ev)
        if has_unsched:
            kinds.append("opt-unscheduled")
        prop = "C06" if has_unsched else "C09"
        pre = "inert_buffer/" if has_unsched else ""
        instants = sorted(set(t for t, _, _ in ev))
        f.add(prop, pre + "change_times", kinds, b3(list(times) == instants), [bid, times, instants])
        if list(times) != instants or len(levels) != len(times) + 1:
            if len(levels) != len(times) + 1:
                f.add("C09", "shape", kinds, I, [bid, levels, times])
            continue
        if bs.get("initial") is not None:
            f.add(prop, pre + "initial_level", kinds, b3(levels[0] == bs["initial"]), [bid, levels[0], bs["initial"]])
        ok = True
        for i, t in enumerate(instants):
            net = sum(q for tt, q, _ in ev if tt == t)
            if levels[i + 1] != levels[i] + net:
                ok = False
        f.add(prop, pre + "step", kinds, b3(ok), [bid, levels, times, ev])
        if bs.get("final") is not None:
            f.add(prop, pre + "final_level", kinds, b3(levels[-1] == bs["final"]), [bid, levels[-1], bs["final"]])
        lo, hi = bs.get("lower"), bs.get("upper")
        inb = all((lo is None or l >= lo) and (hi is None or l <= hi) for l in levels)
        f.add(prop, pre + "bounds", kinds, b3(inb), [bid, levels, lo, hi])
        if has_unsched:
            # "stay within bounds" is about every reported level, whoever is left out of the schedule:
            # the inertness of the unscheduled access is C06's business, the bound itself stays C09's
            f.add("C09", "bounds", kinds, b3(inb), [bid, levels, lo, hi])
        if not bs.get("concurrent"):
            f.add(prop, pre + "nonconcurrent_tie", kinds, b3(len(instants) == len(ev)), [bid, ev])


# --------------------------------------------------------------------------------------
# C08 indicators
# --------------------------------------------------------------------------------------
def _cost_value(cost, x):
    if cost is None:
        return 0
    if "const" in cost:
        return cost["const"]
    if "linear" in cost:
        return cost["linear"][0] * x + cost["linear"][1]
    coeffs = cost["poly"]
    # C(x) = a_n x^n + ... + a_0 with coefficients listed from a_n down to a_0
    r = 0
    for a in coeffs:
        r = r * x + a
    return r


def indicator_value(ispec, sv, c):
    """(value | None, tolerance, reason).  None -> unspecified."""
    k = ispec["kind"]
    Tk = c.tasks
    if k in ("ResourceUtilization", "NumberTasksAssigned", "ResourceIdle"):
        rid = ispec["resource"]
        busy = resource_busy(sv, c, rid)
        if rid in sv.cumul:
            ub = unit_busy(sv, c, rid)
            if ub is None:
                return None, 0, "no model"
            busy_units = ub
        else:
            busy_units = busy
        if k == "ResourceUtilization":
            if rid in sv.cumul:
                return None, 0, "utilisation of a cumulative worker is not defined by the docs"
            tot = sum(hi - lo for _, lo, hi in busy_units)
            if c.horizon <= 0:
                return None, 0, "zero horizon"
            exact = Fraction(100 * tot, c.horizon)
            if exact.denominator == 1:
                return int(exact), 0, None
            return exact, 1, None
        if k == "NumberTasksAssigned":
            return len(busy_units), 0, None
        if rid in sv.cumul:
            return None, 0, "idle of cumulative"
        b = sorted(busy, key=lambda x: (x[1], x[2]))
        if len(b) == 0:
            return 0, 0, None
        if any(hi < lo for _, lo, hi in b):
            return None, 0, "negative-length"
        if any(hi == lo for _, lo, hi in b):
            # zero-length busy intervals: the idle time is still the sum of the gaps between consecutive
            # intervals, as long as no two intervals share a start or an end (then the order is not defined)
            starts = [lo for _, lo, _hi in b]
            ends = [hi for _, _lo, hi in b]
            if len(set(starts)) != len(starts) or len(set(ends)) != len(ends):
                return None, 0, "zero-length with ties"
        return sum(b[i + 1][1] - b[i][2] for i in range(len(b) - 1)), 0, None
    if k == "ResourceCost":
        total = Fraction(0)
        tol = 0
        for rid in ispec["resources"]:
            if rid in sv.cumul:
                cs = sv.cumul[rid]
                cost = cs.get("cost")
                if cost is None:
                    continue
                if "const" not in cost:
                    return None, 0, "non-constant cumulative cost"
                ub = unit_busy(sv, c, rid)
                if ub is None:
                    return None, 0, "no model"
                n, v = cs["size"], cost["const"]
                shares = [v // n + v % n] + [v // n] * (n - 1)
                names = sv.unit_names(rid)
                for u, share in zip(names, shares):
                    for a in sv.assign:
                        if a["resource"] != rid:
                            continue
                        lo = c.model.get(f"lo:{u}:{a['task']}")
                        hi = c.model.get(f"hi:{u}:{a['task']}")
                        if lo is not None and lo >= 0:
                            total += share * (hi - lo)
                continue
            cost = sv.worker[rid].get("cost")
            if cost is None:
                continue
            for _, lo, hi in c.assign.get(rid, []):
                if "const" in cost:
                    total += cost["const"] * (hi - lo)
                else:
                    total += Fraction((_cost_value(cost, lo) + _cost_value(cost, hi)) * (hi - lo), 2)
                    if "poly" in cost:
                        tol = max(tol, 1)
        if total.denominator != 1:
            return total, 1, None
        return int(total), tol, None
    if k in ("Tardiness", "Earliness", "NumberOfTardyTasks", "MaximumLateness"):
        ids = ispec.get("tasks") or list(sv.task)
        if any(sv.task[i].get("due") is None for i in ids):
            return None, 0, "no due date"
        if any(not Tk[i].x for i in ids):
            return None, 0, "unscheduled"
        if k == "Tardiness":
            return sum(sv.task[i].get("priority", 1) * max(0, Tk[i].e - sv.task[i]["due"]) for i in ids), 0, None
        if k == "Earliness":
            return sum(max(0, sv.task[i]["due"] - Tk[i].e) for i in ids), 0, None
        if k == "NumberOfTardyTasks":
            return sum(1 for i in ids if Tk[i].e > sv.task[i]["due"]), 0, None
        return max(Tk[i].e - sv.task[i]["due"] for i in ids), 0, None
    if k in ("MaxBufferLevel", "MinBufferLevel"):
        rep = c.buffers.get(ispec["buffer"])
        if rep is None:
            return None, 0, "no buffer"
        # the reported list folds simultaneous accesses; extrema are those of the reported levels
        return (max(rep[0]) if k == "MaxBufferLevel" else min(rep[0])), 0, None
    if k == "FromMathExpression":
        v = eval_expr(ispec["expr"], sv, c)
        if v is None:
            return None, 0, "reads unscheduled"
        return int(v), 0, None
    return None, 0, "unknown kind"


def objective_indicator_value(ospec, sv, c):
    """value of the indicator an objective creates, (reported name, value|None)."""
    k = ospec["kind"]
    Tk = c.tasks
    ids = ospec.get("tasks") or list(sv.task)
    if k == "MinimizeFlowtime":
        return "Flowtime", sum(Tk[i].e for i in ids if Tk[i].x)
    if k == "Priorities":
        return "TotalPriority", sum(Tk[i].e * sv.task[i].get("priority", 1) for i in sv.task if Tk[i].x)
    if k == "TasksStartEarliest":
        return "WeightedStartTimes", sum(Tk[i].s * sv.task[i].get("priority", 1) for i in sv.task if Tk[i].x)
    if k == "TasksStartLatest":
        if any(not Tk[i].x for i in ids):
            return "MinimumStartTime", None
        return "MinimumStartTime", min(Tk[i].s for i in ids)
    if k == "MinimizeGreatestStartTime":
        if any(not Tk[i].x for i in ids):
            return "GreatestStartTime", None
        return "GreatestStartTime", max(Tk[i].s for i in ids)
    return None, None


def eval_indicators(sv: SpecView, c: Cand, f: Findings, ind_names=None):
    """ind_names: spec indicator id -> reported name."""
    c.ind_values = {}
    ind_names = ind_names or {}
    for iid, ispec in sv.indicator.items():
        name = ind_names.get(iid, iid)
        rep = c.indicators.get(name)
        if rep is not None:
            c.ind_values[iid] = rep
    for iid, ispec in sv.indicator.items():
        name = ind_names.get(iid, iid)
        rep = c.indicators.get(name)
        kinds = ["Indicator" + ispec["kind"]]
        if ispec.get("resource") in sv.cumul or any(r in sv.cumul for r in ispec.get("resources") or []):
            kinds.append("CumulativeWorker")
        if rep is None:
            f.add("C08", "indicator_missing", kinds, I, name)
            continue
        want, tol, why = indicator_value(ispec, sv, c)
        unsched = [i for i in (ispec.get("tasks") or []) if not c.tasks[i].x]
        if want is None:
            f.add("C08", ispec["kind"] + ".value", kinds, U, why)
            continue
        ok = abs(Fraction(rep) - Fraction(want)) <= tol if tol else Fraction(rep) == Fraction(want)
        if tol and not ok:
            pass
        f.add("C08", ispec["kind"] + ".value", kinds, b3(ok), [name, rep, str(want)])
    for ospec in sv.spec.get("objectives", []):
        name, want = objective_indicator_value(ospec, sv, c)
        if name is None:
            continue
        rep = c.indicators.get(name)
        if rep is None:
            continue
        if want is None:
            f.add("C08", name + ".value", ["Objective" + ospec["kind"]], U)
            continue
        f.add("C08", name + ".value", ["Objective" + ospec["kind"]], b3(rep == want), [name, rep, want])


# --------------------------------------------------------------------------------------
# C06 inertness, C11 self-consistency
# --------------------------------------------------------------------------------------
def eval_optional_inert(sv: SpecView, c: Cand, f: Findings):
    for tid, ts in sv.task.items():
        if not ts.get("optional"):
            continue
        t = c.tasks.get(tid)
        if t is None or t.x:
            continue
        k = [sv.task_kind(tid), "opt-unscheduled"]
        held = [r for r, ivs in c.assign.items() if any(tk == tid for tk, _, _ in ivs)]
        f.add("C06", "inert_assignment", k, b3(not held and not c.task_res.get(tid)), [tid, held, c.task_res.get(tid)])
    # indicators that must ignore unscheduled tasks: recompute without them
    for iid, ispec in sv.indicator.items():
        k = ispec["kind"]
        if k not in ("Tardiness", "Earliness", "NumberOfTardyTasks", "MaximumLateness"):
            continue
        ids = ispec.get("tasks") or list(sv.task)
        if any(sv.task[i].get("due") is None for i in ids):
            continue
        un = [i for i in ids if not c.tasks[i].x]
        if not un:
            continue
        rest = [i for i in ids if c.tasks[i].x]
        name = getattr(c, "ind_names", {}).get(iid, iid)
        rep = c.indicators.get(name)
        if rep is None:
            continue
        Tk = c.tasks
        if k == "Tardiness":
            want = sum(sv.task[i].get("priority", 1) * max(0, Tk[i].e - sv.task[i]["due"]) for i in rest)
        elif k == "Earliness":
            want = sum(max(0, sv.task[i]["due"] - Tk[i].e) for i in rest)
        elif k == "NumberOfTardyTasks":
            want = sum(1 for i in rest if Tk[i].e > sv.task[i]["due"])
        else:
            if not rest:
                continue
            want = max(Tk[i].e - sv.task[i]["due"] for i in rest)
        f.add("C06", "inert_indicator/" + k, ["Indicator" + k, "opt-unscheduled"], b3(rep == want), [name, rep, want, un])


def eval_consistency(sv: SpecView, c: Cand, f: Findings, meta=None):
    """C11: cross-field consistency of the report itself."""
    meta = meta or {}
    max_end = None
    for tid, t in c.tasks.items():
        if tid not in sv.task:
            f.add("C11", "unknown_task", ["report"], I, tid)
            continue
        k = [sv.task_kind(tid)]
        if t.x:
            f.add("C11", "span_ne_duration", k, b3(t.e - t.s == t.d), [tid, t.s, t.e, t.d])
            max_end = t.e if max_end is None else max(max_end, t.e)
        # task view <-> resource view
        listed = set(c.task_res.get(tid, []))
        holding = set(r for r, ivs in c.assign.items() if any(tk == tid for tk, _, _ in ivs))
        if t.x:
            f.add("C11", "task_resource_mismatch", k, b3(listed == holding), [tid, sorted(listed), sorted(holding)])
        else:
            f.add("C11", "unscheduled_has_assignment", k + ["opt-unscheduled"], b3(not listed and not holding), [tid, sorted(listed), sorted(holding)])
        if not sv.task[tid].get("optional") and not t.x:
            f.add("C11", "mandatory_reported_unscheduled", k, I, tid)
    for r in c.assign:
        if "_CumulativeWorker_" in r:
            f.add("C11", "cumulative_name", ["CumulativeWorker"], I, r)
        elif r not in sv.worker and r not in sv.cumul:
            f.add("C11", "unknown_resource", ["report"], I, r)
        for tk, lo, hi in c.assign[r]:
            if tk not in c.tasks:
                f.add("C11", "assignment_unknown_task", ["report"], I, [r, tk])
    for cid in sv.cumul:
        f.add("C11", "cumulative_name", ["CumulativeWorker"], b3(cid in c.assign), cid)
    if max_end is not None:
        f.add("C11", "horizon_lt_end", ["horizon"], b3(c.horizon >= max_end), [c.horizon, max_end])
    # optional zero-duration tasks have no scheduled flag in the engine at all
    for tid, ts in sv.task.items():
        if ts.get("optional") and c.model is not None and f"x:{tid}" not in c.model and f"s:{tid}" in c.model:
            t = c.tasks[tid]
            f.add("C11", "optional_without_flag", [sv.task_kind(tid)], I, [tid, t.s, t.x])
    # calendar arithmetic
    cal = meta.get("calendar")
    if cal:
        for tid, row in cal.items():
            f.add("C11", "calendar_time", ["calendar"], b3(row["ok"]), [tid, row])
    # equality with the engine model
    if c.model is not None:
        bad = []
        for tid, t in c.tasks.items():
            ms, me = c.model.get(f"s:{tid}"), c.model.get(f"e:{tid}")
            if ms is not None and (ms != t.s or me != t.e):
                bad.append([tid, t.s, t.e, ms, me])
            md = c.model.get(f"d:{tid}")
            if md is not None and md != t.d:
                bad.append([tid, "d", t.d, md])
            mx = c.model.get(f"x:{tid}")
            if mx is not None and mx != t.x:
                bad.append([tid, "x", t.x, mx])
        for wid in sv.worker:
            want = set()
            for a_task, _a in sv.plain_worker_uses(wid):
                lo, hi = c.model.get(f"lo:{wid}:{a_task}"), c.model.get(f"hi:{wid}:{a_task}")
                if lo is not None and lo >= 0 and hi >= 0:
                    want.add((a_task, lo, hi))
            got = set(c.assign.get(wid, []))
            if want != got:
                bad.append([wid, sorted(got), sorted(want)])
        f.add("C11", "differs_from_engine_model", ["report"], b3(not bad), bad[:3])


# --------------------------------------------------------------------------------------
def evaluate(spec, cand: Cand, ind_names=None, meta=None) -> Findings:
    sv = SpecView(spec)
    f = Findings()
    cand.ind_names = ind_names or {}
    eval_indicators(sv, cand, f, ind_names)   # first: fills cand.ind_values for expressions
    eval_tasks(sv, cand, f)
    eval_resources(sv, cand, f)
    eval_constraints(sv, cand, f)
    eval_buffers(sv, cand, f)
    eval_optional_inert(sv, cand, f)
    eval_consistency(sv, cand, f, meta)
    return f
