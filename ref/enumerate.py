"""Brute-force / sampled candidate schedules for small specs, judged by ref.semantics.

Oracle work only (like a linearizability checker searching linearizations): the deciding
step stays the seeded run of the real system, which is asked to admit these candidates.
"""
from __future__ import annotations

import itertools

from . import semantics as sem
from .semantics import Cand, T, SpecView, V, I, U


def _durations(ts, H):
    if ts["kind"] == "fixed":
        return [ts["duration"]]
    if ts["kind"] == "zero":
        return [0]
    lo = ts.get("min", 0) or 0
    hi = ts.get("max")
    if hi is None:
        hi = H
    ds = [d for d in range(lo, min(hi, H) + 1)]
    if ts.get("allowed") is not None:
        ds = [d for d in ds if d in ts["allowed"]]
    return ds


def task_options(ts, H):
    out = []
    if ts.get("optional"):
        out.append(None)  # unscheduled
    for d in _durations(ts, H):
        for s in range(0, H - d + 1):
            out.append((s, s + d, d))
    return out


def selection_options(sel):
    ws = sel["workers"]
    out = []
    for r in range(0, len(ws) + 1):
        for comb in itertools.combinations(ws, r):
            out.append(frozenset(comb))
    return out


def build_candidate(sv: SpecView, H, choice, sels, dyn):
    """choice: tid -> None | (s,e,d); sels: sid -> frozenset(workers); dyn: (w,t) -> (lo,hi)"""
    c = Cand()
    c.horizon = H
    spec = sv.spec
    num = 0
    for ts in spec["tasks"]:
        num += 1
        ch = choice[ts["id"]]
        if ch is None:
            c.tasks[ts["id"]] = T(-num, -num, 0, False)
        else:
            c.tasks[ts["id"]] = T(ch[0], ch[1], ch[2], True)
        c.task_res[ts["id"]] = []
    for w in sv.worker:
        c.assign[w] = []
    for cw in sv.cumul:
        c.assign[cw] = []
    for a in sv.assign:
        t = c.tasks[a["task"]]
        rid = a["resource"]
        if rid in sv.select:
            chosen = sels.get(rid, frozenset())
            for w in sv.select[rid]["workers"]:
                c.sel[(rid, w)] = w in chosen
        if not t.x:
            continue
        if rid in sv.worker:
            if a.get("dynamic"):
                lo, hi = dyn[(rid, a["task"])]
            else:
                lo, hi = t.s + a.get("delay_in", 0), t.e - a.get("early_out", 0)
            c.assign[rid].append((a["task"], lo, hi))
            c.task_res[a["task"]].append(rid)
        elif rid in sv.cumul:
            c.assign[rid].append((a["task"], t.s, t.e))
            c.task_res[a["task"]].append(rid)
        elif rid in sv.select:
            for w in sv.select[rid]["workers"]:
                if w in sels.get(rid, frozenset()) and w in sv.worker:
                    c.assign[w].append((a["task"], t.s, t.e))
                    c.task_res[a["task"]].append(w)
    # buffers: replay
    for bid, bs in sv.buffer.items():
        ev = sem.buffer_events(sv, c, bid)
        instants = sorted(set(t for t, _, _ in ev))
        net = [sum(q for tt, q, _ in ev if tt == t) for t in instants]
        if bs.get("initial") is not None:
            lv = [bs["initial"]]
        else:
            lv = [bs["final"] - sum(net)]
        for n in net:
            lv.append(lv[-1] + n)
        c.buffers[bid] = (lv, instants)
    return c


def fill_indicators(sv: SpecView, c: Cand):
    """derive indicator values from their definitions; returns False when one is unspecified"""
    c.ind_values = {}
    c.ind_names = {}
    ok = True
    for iid, ispec in sv.indicator.items():
        want, tol, why = sem.indicator_value(ispec, sv, c)
        if want is None or tol:
            ok = False
            continue
        c.ind_values[iid] = want
        c.indicators[iid] = want
        c.ind_names[iid] = iid
    return ok


def classify(spec, c: Cand, sv=None):
    """VALID / INVALID / UNSPECIFIED for a generated candidate (every element of the spec)."""
    sv = sv or SpecView(spec)
    opt_ops = sem.optional_operand_ids(spec)
    if opt_ops and len(opt_ops) <= 4 and c.model is None:
        # applied flags of optional operands are existential: VALID if some assignment works
        best = None
        for bits in itertools.product([False, True], repeat=len(opt_ops)):
            c.applied_guess = dict(zip(opt_ops, bits))
            st, f = _classify_once(spec, c, sv)
            if st == V:
                return V, f
            if st == U:
                best = (U, f)
            elif best is None:
                best = (I, f)
        return best
    return _classify_once(spec, c, sv)


def _classify_once(spec, c, sv):
    f = sem.Findings()
    inds_ok = fill_indicators(sv, c)
    sem.eval_tasks(sv, c, f)
    sem.eval_resources(sv, c, f)
    sem.eval_constraints(sv, c, f)
    sem.eval_buffers(sv, c, f)
    if f.items:
        return I, f
    if f.unspecified or not inds_ok:
        return U, f
    return V, f


def dyn_options(t):
    out = []
    for lo in range(t[0], t[1] + 1):
        for hi in range(lo, t[1] + 1):
            out.append((lo, hi))
    return out


def space_size(spec):
    H = spec.get("horizon")
    if H is None:
        return None
    n = 1
    for ts in spec["tasks"]:
        n *= max(1, len(task_options(ts, H)))
    for s in spec.get("selects", []):
        if any(a["resource"] == s["id"] for a in spec.get("assign", [])):
            n *= 2 ** len(s["workers"])
    for a in spec.get("assign", []):
        if a.get("dynamic"):
            n *= 6
    return n


def enumerate_all(spec, limit=6000):
    """yield (status, Cand, key) for every decision vector; None if the space is too big"""
    H = spec.get("horizon")
    if H is None:
        return None
    if space_size(spec) > limit:
        return None
    sv = SpecView(spec)
    tids = [t["id"] for t in spec["tasks"]]
    opts = [task_options(t, H) for t in spec["tasks"]]
    used_sel = [s for s in spec.get("selects", []) if any(a["resource"] == s["id"] for a in spec.get("assign", []))]
    sel_opts = [selection_options(s) for s in used_sel]
    dyns = [(a["resource"], a["task"]) for a in spec.get("assign", []) if a.get("dynamic") and a["resource"] in sv.worker]
    out = []
    for combo in itertools.product(*opts):
        choice = dict(zip(tids, combo))
        dyn_lists = []
        for (w, t) in dyns:
            ch = choice[t]
            dyn_lists.append(dyn_options(ch) if ch is not None else [(None, None)])
        live_opts = []
        for s, so in zip(used_sel, sel_opts):
            users = [a["task"] for a in spec.get("assign", []) if a["resource"] == s["id"]]
            live_opts.append(so if any(choice[t] is not None for t in users) else [frozenset()])
        for selc in itertools.product(*live_opts) if live_opts else [()]:
            sels = {s["id"]: sc for s, sc in zip(used_sel, selc)}
            for dc in itertools.product(*dyn_lists) if dyn_lists else [()]:
                dyn = dict(zip(dyns, dc))
                c = build_candidate(sv, H, choice, sels, dyn)
                st, f = classify(spec, c, sv)
                out.append((st, c, sels, dyn))
                if len(out) > limit:
                    return None
    return out


def timing_key(c: Cand):
    """what find_another_solution distinguishes: start / end / scheduled of every task"""
    return tuple((tid, t.s, t.e, t.x) if t.x else (tid, None, None, False) for tid, t in sorted(c.tasks.items()))


def sample(spec, rng, tries=60, want=8):
    """seeded random candidates, returns [(status, Cand, sels, dyn)]"""
    H = spec.get("horizon")
    if H is None:
        H = 3 + sum((t.get("duration") or t.get("max") or (t.get("min", 0) + 2)) for t in spec["tasks"])
        H = min(H, 20)
    sv = SpecView(spec)
    opts = {t["id"]: task_options(t, H) for t in spec["tasks"]}
    if any(not o for o in opts.values()):
        return []
    used_sel = [s for s in spec.get("selects", []) if any(a["resource"] == s["id"] for a in spec.get("assign", []))]
    dyns = [(a["resource"], a["task"]) for a in spec.get("assign", []) if a.get("dynamic") and a["resource"] in sv.worker]
    out = []
    for _ in range(tries):
        choice = {tid: rng.choice(o) for tid, o in opts.items()}
        sels = {}
        for s in used_sel:
            k = s.get("nb", 1)
            kind = s.get("kind", "exact")
            n = len(s["workers"])
            size = k if kind == "exact" else rng.randint(k, n) if kind == "min" else rng.randint(0, k)
            if rng.random() < 0.15:
                size = rng.randint(0, n)
            sels[s["id"]] = frozenset(rng.sample(s["workers"], size))
        dyn = {}
        for (w, t) in dyns:
            ch = choice[t]
            dyn[(w, t)] = rng.choice(dyn_options(ch)) if ch is not None else (None, None)
        c = build_candidate(sv, H, choice, sels, dyn)
        c.horizon = spec.get("horizon") if spec.get("horizon") is not None else max([x.e for x in c.tasks.values() if x.x] + [0])
        st, f = classify(spec, c, sv)
        out.append((st, c, sels, dyn))
        if sum(1 for o in out if o[0] == V) >= want:
            break
    return out


def cand_pins(spec, c: Cand, sels, dyn, pin_horizon=False):
    """the decision vector of a generated candidate as engine pins"""
    pins = {}
    for ts in spec["tasks"]:
        tid = ts["id"]
        t = c.tasks[tid]
        if ts.get("optional"):
            pins[f"x:{tid}"] = bool(t.x)
        if not t.x:
            continue
        pins[f"s:{tid}"] = t.s
        pins[f"e:{tid}"] = t.e
        if ts["kind"] == "variable":
            pins[f"d:{tid}"] = t.d
    for sid, chosen in sels.items():
        users = [a["task"] for a in spec.get("assign", []) if a["resource"] == sid]
        if not any(c.tasks[t].x for t in users):
            continue  # the selection of an unscheduled task is not part of the schedule
        for s in spec.get("selects", []):
            if s["id"] == sid:
                for w in s["workers"]:
                    pins[f"sel:{sid}:{w}"] = w in chosen
    for (w, t), (lo, hi) in dyn.items():
        if lo is not None:
            pins[f"lo:{w}:{t}"] = lo
            pins[f"hi:{w}:{t}"] = hi
    return pins


def cand_from_pins(spec, pins):
    """rebuild the generated candidate a pin set denotes (inverse of cand_pins); None when
    the pins do not denote a complete decision vector for this spec"""
    sv = SpecView(spec)
    H = spec.get("horizon")
    choice = {}
    for ts in spec["tasks"]:
        tid = ts["id"]
        if ts.get("optional") and pins.get(f"x:{tid}") is False:
            choice[tid] = None
            continue
        if f"s:{tid}" not in pins or f"e:{tid}" not in pins:
            return None
        s_, e_ = pins[f"s:{tid}"], pins[f"e:{tid}"]
        d_ = pins.get(f"d:{tid}", e_ - s_)
        choice[tid] = (s_, e_, d_)
    sels = {}
    for sel in spec.get("selects", []):
        users = [a["task"] for a in spec.get("assign", []) if a["resource"] == sel["id"]]
        if not users:
            continue
        if not any(choice.get(t) is not None for t in users):
            sels[sel["id"]] = frozenset()
            continue
        chosen = set()
        for w in sel["workers"]:
            v = pins.get(f"sel:{sel['id']}:{w}")
            if v is None:
                return None
            if v:
                chosen.add(w)
        sels[sel["id"]] = frozenset(chosen)
    dyn = {}
    for a in spec.get("assign", []):
        if a.get("dynamic") and a["resource"] in sv.worker:
            if choice.get(a["task"]) is None:
                dyn[(a["resource"], a["task"])] = (None, None)
            else:
                lo, hi = pins.get(f"lo:{a['resource']}:{a['task']}"), pins.get(f"hi:{a['resource']}:{a['task']}")
                if lo is None or hi is None:
                    return None
                dyn[(a["resource"], a["task"])] = (lo, hi)
    if H is None:
        H = max([c[1] for c in choice.values() if c is not None] + [0])
    c = build_candidate(sv, H, choice, sels, dyn)
    return c, sels, dyn


def has_valid(spec, rng, limit=2500):
    """does the reference model know at least one VALID candidate? (True / False / None=unknown)"""
    allc = enumerate_all(spec, limit=limit) if spec.get("horizon") is not None and spec["horizon"] <= 9 else None
    if allc is not None:
        if any(st == V for st, *_ in allc):
            return True
        return None if any(st == U for st, *_ in allc) else False
    got = sample(spec, rng, tries=120, want=1)
    return True if any(st == V for st, *_ in got) else None


def objective_value(spec, c: Cand, sv=None):
    """value of the (weighted sum of the) objective(s) of a spec on a generated candidate,
    from the documented definitions only; None when some part is unspecified"""
    sv = sv or SpecView(spec)
    total = 0
    Tk = c.tasks
    several = len(spec.get("objectives", [])) > 1
    for o in spec.get("objectives", []):
        k = o["kind"]
        # (a single objective is optimised as it is; weights only enter the sum of several)
        w = o.get("weight", 1) if several and k in ("MaximizeIndicator", "MinimizeIndicator") else 1
        ids = o.get("tasks") or list(sv.task)
        if k == "MinimizeMakespan":
            ends = [t.e for t in Tk.values() if t.x]
            if not ends or any(not t.x for t in Tk.values()):
                return None  # the makespan of a schedule with unscheduled tasks is not documented
            v = max(ends)
        elif k == "MinimizeFlowtime":
            v = sum(Tk[i].e for i in ids if Tk[i].x)
        elif k == "Priorities":
            v = sum(Tk[i].e * sv.task[i].get("priority", 1) for i in sv.task if Tk[i].x)
        elif k == "TasksStartEarliest":
            v = sum(Tk[i].s * sv.task[i].get("priority", 1) for i in sv.task if Tk[i].x)
        elif k in ("TasksStartLatest", "MinimizeGreatestStartTime"):
            if any(not Tk[i].x for i in ids):
                return None
            v = min(Tk[i].s for i in ids) if k == "TasksStartLatest" else max(Tk[i].s for i in ids)
        elif k in ("MaximizeIndicator", "MinimizeIndicator"):
            ispec = sv.indicator[o["indicator"]]
            val, tol, _why = sem.indicator_value(ispec, sv, c)
            if val is None or tol:
                return None
            v = val
        else:
            return None
        total += w * v
    return total


def reference_optimum(spec, limit=3000):
    """(optimum, n_valid) over the exhaustively enumerated decision space, or None when the
    space is too large / some candidate is unspecified / an objective is outside the documented subset"""
    if not spec.get("objectives") or spec.get("horizon") is None or spec["horizon"] > 9:
        return None
    allc = enumerate_all(spec, limit=limit)
    if allc is None:
        return None
    from sim.gen import objective_direction
    direction = objective_direction(spec["objectives"][0]["kind"])
    sv = SpecView(spec)
    best = None
    n = 0
    for st, c, _sels, _dyn in allc:
        if st == U:
            return None
        if st != V:
            continue
        v = objective_value(spec, c, sv)
        if v is None:
            return None
        n += 1
        if best is None or (v < best if direction == "min" else v > best):
            best = v
    return best, n
