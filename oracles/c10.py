"""C10 - logical combinations and optional constraints mean what their connective says.

Soundness: on every returned schedule the formula, evaluated with Python connectives over
the operands' own meanings, is true; applied optional constraints hold and their count
obeys force-apply-N (applied flags read from the engine model).
Completeness ("an operand is not enforced on its own"): reference-VALID candidates - among
them those that satisfy the formula while violating one operand taken alone - are pinned
on a solve(); a refusal is an operand leak / a too strong encoding.
"""
from ref import enumerate as enum
from ref import semantics as sem
from sim import gen
from sim.engine import keyed_rng
from sim.spec import spec_kinds, iter_constraints
from .base import Check, Verdict, resolve_perturb
from .c05 import CHECK as C05CHECK

LOGIC = set(gen.LOGIC_KINDS)


def operands_of(cs):
    out = []
    for key in ("arg", "a", "b"):
        if isinstance(cs.get(key), dict):
            out.append(cs[key])
    for key in ("args", "then", "else"):
        out.extend(cs.get(key, []) or [])
    return out


def violates_an_operand_alone(spec, cand):
    """does the candidate make some operand (taken as a stand-alone constraint) false?"""
    sv = sem.SpecView(spec)
    for cs in spec.get("constraints", []):
        if cs["kind"] in LOGIC:
            stack = list(operands_of(cs))
            while stack:
                x = stack.pop()
                if sem.operand_meaning(x, sv, cand) == sem.I:
                    return True
                if "kind" in x:
                    stack.extend(operands_of(x))
    return False


class C10(Check):
    pid = "C10"
    title = "logic and optional constraints"
    props = frozenset({"C10"})
    quick_runs = 2000
    thorough_runs = 50000
    nontrivial_rule = ("a problem with a connective / optional constraint / user expression returned a schedule (formula evaluated), or a "
                       "reference-valid candidate was pinned on it")
    expected_probes = ["kind:Not", "kind:And", "kind:Or", "kind:Xor", "kind:Implies", "kind:IfThenElse", "kind:ConstraintFromExpression",
                       "kind:ForceApplyNOptionalConstraints", "optional_constraint", "pin_admitted", "pinned_violates_operand_alone", "nested", "optional_operand", "python_bool_condition"]

    def profile(self, rng, tier):
        big = tier == "thorough"
        kinds = list(gen.LOGIC_KINDS) + ["ConstraintFromExpression"]
        optional_mix = rng.random() < 0.35
        if optional_mix:
            kinds = ["TaskStartAt", "TaskEndBefore", "TaskPrecedence", "TasksStartSynced", "TasksDontOverlap", "ConstraintFromExpression"] + list(gen.LOGIC_KINDS)
            if rng.random() < 0.5:
                # "declared optional" is offered by every constraint class: any kind, left unapplied, must exclude nothing
                kinds = rng.sample(gen.TASK_CONSTRAINT_KINDS + gen.RESOURCE_CONSTRAINT_KINDS + gen.OPTIONAL_RULE_KINDS, 4) + ["And", "Or"]
        return gen.profile(
            n_tasks=(2, 4 if big else 3), p_optional=0.15, p_zero=0.1, p_variable=0.3, n_workers=(0, 2), p_select=0.2, p_assign=0.6 if optional_mix else 0.3,
            p_horizon=0.95, slack=(1, 5), constraints=kinds, n_constraints=(1, 3), p_optional_constraint=0.6 if optional_mix else 0.0,
            p_optional_operand=0.25 if rng.random() < 0.5 else 0.0,
            logic_depth=3 if big else 2,
        ), optional_mix

    def plan(self, run_seed, tier):
        rng = keyed_rng(run_seed, "plan")
        prof, optional_mix = self.profile(rng, tier)
        g = gen.Gen(keyed_rng(run_seed, "spec"), prof)
        spec = g.gen()
        if optional_mix and any(c.get("optional") for c in spec["constraints"]) and rng.random() < 0.7:
            c = g.gen_constraint("ForceApplyNOptionalConstraints")
            if c is not None:
                spec["constraints"].append(c)
        plan = {"property": self.pid, "run_seed": run_seed, "sim_version": 1, "tier": tier,
                "clients": [{"id": "A", "spec": spec, "config": {}}], "script": []}
        fault_free = rng.random() < 0.3
        plan["fault_free"] = fault_free
        step = {"client": "A", "op": "solve"}
        if not fault_free:
            st = self.steer(rng, 1)
            if st:
                if rng.random() < 0.5:
                    st["groups"] = ["time", "flag", "busy"]
                step["default"] = {"steer": st}
        plan["script"].append(step)
        for j in range(rng.choice([0, 1, 2, 3])):
            step = {"client": "A", "op": "find_another", "if_model": True}
            if not fault_free:
                st = self.steer(rng, 10 + j, later=True)
                if st:
                    step["default"] = {"steer": st}
            plan["script"].append(step)
        # completeness half: reference-valid candidates, preferring those that violate an operand alone
        K = 6 if tier == "quick" else 12
        allc = enum.enumerate_all(spec, limit=2500 if tier == "quick" else 8000) if spec.get("horizon") is not None and spec["horizon"] <= 9 else None
        cands = allc if allc is not None else enum.sample(spec, keyed_rng(run_seed, "sample"), tries=150, want=K)
        valid = [c for c in cands if c[0] == sem.V]
        crng = keyed_rng(run_seed, "choose")
        sharp = [c for c in valid if violates_an_operand_alone(spec, c[1])]
        crng.shuffle(sharp)
        rest = [c for c in valid if c not in sharp[:K]]
        crng.shuffle(rest)
        chosen = sharp[: K // 2 + 1] + rest[: K - min(len(sharp), K // 2 + 1)]
        plan["ref"] = {"mode": "enumerated" if allc is not None else "sampled", "n_valid": len(valid), "n_sharp": len(sharp)}
        for st, c, sels, dyn in chosen:
            pins = enum.cand_pins(spec, c, sels, dyn)
            plan["script"].append({"client": "A2", "op": "solve",
                                   "env": [{"steer": {"mode": "pin", "pins": pins, "expect": "admit", "tag": "valid-candidate"}}]})
        if chosen:
            plan["clients"].append({"id": "A2", "spec": "=A", "config": {}})
        return plan

    def judge(self, plan, result):
        v = Verdict()
        if result.get("build_rejected"):
            v.probe("build_rejected")
            return v
        spec = result["clients"]["A"]["spec"]
        mine = False
        for c in iter_constraints(spec):
            if c["kind"] in LOGIC or c["kind"] in ("ConstraintFromExpression", "ForceApplyNOptionalConstraints"):
                v.probe("kind:" + c["kind"])
                mine = True
                if isinstance(c.get("cond"), list) and c["cond"][0] == "py":
                    v.probe("python_bool_condition")
            if c.get("optional"):
                v.probe("optional_constraint")
                mine = True
        for c in spec.get("constraints", []):
            if c["kind"] in LOGIC and any("kind" in x and x["kind"] in LOGIC for x in operands_of(c)):
                v.probe("nested")
        if sem.optional_operand_ids(spec):
            v.probe("optional_operand")
        n_sol = self.judge_solutions(plan, result, v)
        n_pinned = 0
        for ev in result["events"]:
            if ev.get("outcome") == "exception":
                v.violate("C10", f"exception/{ev['op']}", [ev["exc"].split(":")[0]], ev["exc"], ev["seq"], ev["client"])
                continue
            for st in ev.get("steers") or []:
                if st.get("tag") != "valid-candidate":
                    continue
                n_pinned += 1
                if st.get("admitted"):
                    v.probe("pin_admitted")
                    continue
                if st.get("why") == "unknown":
                    v.probe("pin_inconclusive")
                    continue
                pins = st.get("pins") or {}
                rebuilt = enum.cand_from_pins(spec, pins)
                if rebuilt is None or enum.classify(spec, rebuilt[0])[0] != sem.V:
                    v.probe("pin_not_valid_for_this_spec")
                    continue
                culprits = C05CHECK.culprits(plan, spec, pins)
                logic_culprits = [k for k in culprits if k.split(".")[0] in LOGIC or k.split(".")[0] in ("ConstraintFromExpression", "ForceApplyNOptionalConstraints")]
                optional_culprits = [k for k in culprits if k.startswith("Optional(")]
                alone = violates_an_operand_alone(spec, rebuilt[0])
                if optional_culprits and not logic_culprits:
                    # the reference counts an optional constraint as excluding nothing: the refusal goes away
                    # when that constraint is deleted, so left unapplied it still constrained the schedule
                    v.violate("C10", "optional_constraint_not_inert", optional_culprits, {"pins": pins}, ev["seq"], ev["client"])
                elif logic_culprits:
                    rule = "operand_leaked" if alone else "formula_too_strong"
                    v.violate("C10", rule, logic_culprits, {"pins": pins}, ev["seq"], ev["client"])
                else:
                    s = "C05/lost_schedule/" + "+".join(culprits)
                    v.notes[s] = v.notes.get(s, 0) + 1
            if ev.get("steers"):
                for st in ev["steers"]:
                    if st.get("tag") == "valid-candidate" and st.get("admitted"):
                        rebuilt = enum.cand_from_pins(spec, st.get("pins") or {})
                        if rebuilt is not None and violates_an_operand_alone(spec, rebuilt[0]):
                            v.probe("pinned_violates_operand_alone")
        if mine and (n_sol or n_pinned):
            v.key = [spec_kinds(spec), n_sol, min(n_pinned, 3)]
        return v


CHECK = C10()
