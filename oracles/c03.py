"""C03 - every declared task constraint holds in every returned schedule."""
from sim import gen
from .base import Check


class C03(Check):
    pid = "C03"
    title = "task constraints"
    props = frozenset({"C03"})
    quick_runs = 3000
    thorough_runs = 80000
    nontrivial_rule = "at least one returned schedule of a problem with a mandatory task constraint, its documented relation evaluated"
    expected_probes = ["outcome:solution"] + ["kind:" + k for k in gen.TASK_CONSTRAINT_KINDS]

    def profile(self, rng, tier):
        big = tier == "thorough"
        kinds = list(gen.TASK_CONSTRAINT_KINDS) + ["GroupPrecedence"]
        if rng.random() < 0.5:
            kinds = rng.sample(kinds, 3)
        return gen.profile(
            n_tasks=(2, 6 if big else 4), p_optional=0.3, p_zero=0.15, p_variable=0.3, p_release=0.1, p_due=0.1,
            n_workers=(0, 2), p_cumulative=0.1, p_select=0.2, p_assign=0.4, p_horizon=0.7, slack=(1, 7),
            constraints=kinds, n_constraints=(1, 4 if big else 3),
            objectives=["MinimizeMakespan", "MinimizeFlowtime", "TasksStartLatest"] if rng.random() < 0.2 else [], n_objectives=(1, 1),
        )

    def config(self, rng, spec, tier):
        cfg = {}
        if spec.get("objectives") and rng.random() < 0.3:
            cfg["optimizer"] = "optimize"
        if spec.get("objectives") and rng.random() < 0.3:
            cfg["max_iter"] = rng.randint(1, 3)
        return cfg

    def judge(self, plan, result):
        v = super().judge(plan, result)
        spec = plan["clients"][0]["spec"]
        mine = [c["kind"] for c in spec.get("constraints", []) if c["kind"] in gen.TASK_CONSTRAINT_KINDS and not c.get("optional")]
        if v.key is not None:
            if not mine:
                v.key = None
            for k in set(mine):
                v.probe("kind:" + k)
        return v


CHECK = C03()
