"""C09 - buffer levels follow loads/unloads in time order and stay within bounds."""
from sim import gen
from .base import Check


class C09(Check):
    pid = "C09"
    title = "buffers"
    props = frozenset({"C09"})
    quick_runs = 2000
    thorough_runs = 50000
    nontrivial_rule = "at least one returned schedule of a problem with a buffer accessed by a scheduled task, replayed event by event"
    expected_probes = ["outcome:solution", "concurrent", "nonconcurrent", "tie_in_returned_schedule", "two_buffers", "bound_binding"]

    def profile(self, rng, tier):
        big = tier == "thorough"
        return gen.profile(
            n_tasks=(2, 6 if big else 5), p_optional=0.15, p_zero=0.15, p_variable=0.3, n_workers=(0, 2), p_select=0.2, p_assign=0.4,
            p_horizon=0.8, slack=(0, 6), n_buffers=(1, 2), constraints=["TaskStartAt", "TaskPrecedence", "TasksStartSynced", "TasksEndSynced", "TaskEndBefore"],
            n_constraints=(0, 2), indicators=["MaxBufferLevel", "MinBufferLevel"] if rng.random() < 0.3 else [], n_indicators=(1, 2),
            objectives=["MaximizeMaxBufferLevel", "MinimizeMaxBufferLevel", "MinimizeMakespan"] if rng.random() < 0.2 else [], n_objectives=(1, 1),
        )

    def config(self, rng, spec, tier):
        cfg = {}
        if spec.get("objectives") and rng.random() < 0.4:
            cfg["max_iter"] = rng.randint(1, 3)
        return cfg

    def steer(self, rng, key, later=False):
        st = super().steer(rng, key, later)
        if st is not None and st.get("mode") == "greedy" and rng.random() < 0.4:
            # narrow value range: many ties between load / unload instants
            st["bias"] = "low"
        return st

    def judge(self, plan, result):
        v = super().judge(plan, result)
        spec = plan["clients"][0]["spec"]
        if v.key is not None:
            if not spec.get("buffers"):
                v.key = None
                return v
            if len(spec["buffers"]) > 1:
                v.probe("two_buffers")
            for b in spec["buffers"]:
                v.probe("concurrent" if b.get("concurrent") else "nonconcurrent")
            for ev in result["events"]:
                if ev.get("outcome") != "solution":
                    continue
                for bid, b in ev["solution"]["buffers"].items():
                    bs = next(x for x in spec["buffers"] if x["id"] == bid)
                    n_acc = sum(1 for c in spec["constraints"] if c["kind"] in ("TaskLoadBuffer", "TaskUnloadBuffer") and c["buffer"] == bid
                                and ev["solution"]["tasks"][c["task"]]["scheduled"])
                    if len(b["level_change_times"]) < n_acc:
                        v.probe("tie_in_returned_schedule")
                    if (bs.get("lower") is not None and bs["lower"] in b["level"]) or (bs.get("upper") is not None and bs["upper"] in b["level"]):
                        v.probe("bound_binding")
        return v


CHECK = C09()
