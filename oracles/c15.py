"""C15 - solver options change performance and search order only, never validity.

One spec, 2-4 clients (each its own problem object built from the spec) with
configurations drawn from optimizer x optimize_priority x random_values x debug x logics x
parallel(stub) x verbosity.  Every returned schedule must be valid; definite answers in a
logic that covers the problem must agree on feasibility and on the optimal value.
"""
from sim import gen
from sim.engine import keyed_rng
from sim.spec import spec_kinds, iter_constraints
from .base import Check, Verdict, engine_nonoptimal

VALIDITY_PROPS = frozenset({"C01", "C02", "C03", "C04", "C09"})
SAFE_CONSTRAINTS = ["TaskStartAt", "TaskStartAfter", "TaskEndAt", "TaskEndBefore", "TaskPrecedence", "TasksStartSynced", "TasksEndSynced",
                    "TasksDontOverlap", "TasksContiguous", "UnorderedTaskGroup", "OrderedTaskGroup", "OptionalTaskForceSchedule",
                    "ForceScheduleNOptionalTasks", "WorkLoad", "ResourceUnavailable", "ResourceTasksDistance", "ResourceNonDelay", "SameWorkers",
                    "DistinctWorkers", "ResourcePeriodicallyUnavailable", "ResourceInterrupted"]
OBJECTIVES = ["MinimizeMakespan", "MinimizeFlowtime", "TasksStartEarliest", "Priorities", "MinimizeGreatestStartTime", "MaximizeIndicator", "MinimizeIndicator"]
LINEAR_LOGICS = ["QF_LIA", "QF_UFLIA", "QF_ALIA", "QF_AUFLIA", "QF_LIRA", "QF_AUFLIRA"]
DIFFERENCE_LOGICS = ["QF_IDL", "QF_UFIDL"]
PRECEDENCE_ONLY = {"TaskStartAt", "TaskStartAfter", "TaskEndAt", "TaskEndBefore", "TaskPrecedence", "TasksStartSynced", "TasksEndSynced"}


def logic_class(spec):
    """conservative: which logics certainly cover the encoding of this spec"""
    if spec.get("buffers") or gen.has_nonlinear(spec):
        return []
    kinds = set(c["kind"] for c in iter_constraints(spec))
    if any(k.startswith("ResourcePeriodically") for k in kinds):
        return []  # mod / div
    if any(i["kind"] in ("ResourceUtilization", "ResourceCost") for i in spec.get("indicators", [])):
        return []  # integer division
    out = list(LINEAR_LOGICS)
    pure = (all(t["kind"] == "fixed" and not t.get("optional") for t in spec["tasks"]) and kinds <= PRECEDENCE_ONLY and not spec.get("selects")
            and not spec.get("cumulative") and not spec.get("indicators") and not spec.get("objectives")
            and all(not t.get("work") for t in spec["tasks"]))
    if pure:
        out += DIFFERENCE_LOGICS
    return out


def cfg_name(cfg):
    parts = [cfg.get("optimizer", "incremental")]
    if cfg.get("optimizer") == "optimize":
        parts.append(cfg.get("optimize_priority", "pareto"))
    for k in ("debug", "random_values", "parallel"):
        if cfg.get(k):
            parts.append(k)
    if cfg.get("logics"):
        parts.append("logic")
    return "+".join(parts)


class C15(Check):
    pid = "C15"
    title = "solver options"
    props = VALIDITY_PROPS
    quick_runs = 1200
    thorough_runs = 30000
    nontrivial_rule = "at least two configurations gave a definite answer on the same spec and were compared, or a schedule returned under a non-default configuration was validated"
    expected_probes = ["cfg:debug", "cfg:random_values", "cfg:parallel(stub)", "cfg:logic", "cfg:optimize", "verdicts_compared", "optima_compared",
                       "logic_unknown_ignored", "valid_under_nondefault"]

    def plan(self, run_seed, tier):
        rng = keyed_rng(run_seed, "plan")
        big = tier == "thorough"
        with_obj = rng.random() < 0.55
        simple = rng.random() < 0.2   # pure precedence specs so that difference logics get used
        if simple:
            prof = gen.profile(n_tasks=(2, 5), p_optional=0, p_zero=0, p_variable=0, p_release=0.2, p_due=0.2, n_workers=(0, 2), p_select=0, p_cumulative=0,
                               p_assign=0.5, p_dynamic=0, p_delayed=0, p_work=0, p_cost=0, p_horizon=0.8, constraints=sorted(PRECEDENCE_ONLY), n_constraints=(1, 3))
        else:
            prof = gen.profile(
                n_tasks=(1, 5 if big else 4), p_optional=0.25, p_zero=0.1, p_variable=0.3, p_release=0.15, p_due=0.15, n_workers=(0, 3), p_select=0.4,
                p_cumulative=0.2, p_assign=0.7, p_dynamic=0.1, p_delayed=0.1, p_work=0.2, p_horizon=0.85, slack=(0, 5),
                constraints=rng.sample(SAFE_CONSTRAINTS, 4), n_constraints=(0, 3), n_buffers=(0, 1) if rng.random() < 0.15 else (0, 0),
                indicators=["FromMathExpression", "FromMathExpression", "NumberTasksAssigned", "ResourceUtilization"] if with_obj else [], n_indicators=(1, 2),
                p_indicator_bounds=0.6,
                objectives=OBJECTIVES if with_obj else [], n_objectives=(1, 1) if rng.random() < 0.8 else (2, 2),
            )
        if with_obj and not simple and rng.random() < 0.15:
            # due-date indicators as objectives (optimum 0 or negative); no optional tasks, see C07
            prof = dict(prof, p_optional=0.0, p_due=0.7, indicators=["Tardiness", "Earliness", "NumberOfTardyTasks", "MaximumLateness"],
                        objectives=["MinimizeIndicator", "MinimizeIndicator", "MaximizeIndicator"], n_objectives=(1, 1), slack=(2, 8))
        spec = gen.gen_spec(keyed_rng(run_seed, "spec"), prof)
        logics = logic_class(spec)
        n_clients = rng.randint(2, 4)
        clients, script = [], []
        for k in range(n_clients):
            cfg = {}
            if k > 0 or rng.random() < 0.5:
                if spec.get("objectives") and rng.random() < 0.45:
                    cfg["optimizer"] = "optimize"
                    cfg["optimize_priority"] = rng.choice(["pareto", "lex", "box", "weight"])
                if rng.random() < 0.3:
                    cfg["random_values"] = True
                if rng.random() < 0.3:
                    cfg["debug"] = True
                if rng.random() < 0.2:
                    cfg["parallel"] = True
                if rng.random() < 0.15:
                    cfg["verbosity"] = rng.choice([1, 2])
                if logics and rng.random() < 0.4 and cfg.get("optimizer") != "optimize":
                    cfg["logics"] = rng.choice(logics)
                elif not logics and rng.random() < 0.08 and cfg.get("optimizer") != "optimize":
                    cfg["logics"] = rng.choice(LINEAR_LOGICS + DIFFERENCE_LOGICS)   # not covering: only validity may be judged
                    cfg["_uncovered"] = True
            uncovered = cfg.pop("_uncovered", False)
            cfg = self.safe_config(cfg, spec)
            cid = f"K{k}"
            clients.append({"id": cid, "spec": spec if k == 0 else "=K0", "config": cfg, "uncovered_logic": uncovered})
            step = {"client": cid, "op": "solve"}
            if cfg.get("random_values") or rng.random() < 0.25:
                st = self.steer(rng, 30 + k)
                if st and not spec.get("objectives"):
                    step["default"] = {"steer": st}
                elif spec.get("objectives") and cfg.get("optimizer") != "optimize":
                    # search-order options decide which model the incremental loop starts from: let it start
                    # on a declared bound of the objective's indicator, on 0, or far from the optimum
                    o = spec["objectives"][0]
                    ind = next((i for i in spec.get("indicators", []) if i["id"] == o.get("indicator")), None) if len(spec["objectives"]) == 1 else None
                    direction = gen.objective_direction(o["kind"])
                    r = rng.random()
                    if ind is not None and ind.get("bounds") and r < 0.6:
                        step["env"] = [{"steer": {"mode": "pin", "pins": {"OBJ": rng.choice(ind["bounds"])}, "tag": "bound"}}]
                    elif len(spec["objectives"]) == 1 and r < 0.75:
                        step["env"] = [{"steer": {"mode": "pin", "pins": {"OBJ": 0}, "tag": "zero"}}]
                    else:
                        step["env"] = [{"steer": {"mode": "greedy", "bias": "high" if direction == "min" else "low", "key": 70 + k,
                                                  "groups": ["time", "flag", "busy", "horizon"]}}]
            script.append(step)
        return {"property": self.pid, "run_seed": run_seed, "sim_version": 1, "tier": tier, "clients": clients, "script": script}

    def judge_crash(self, plan, signum):
        v = Verdict()
        risky = [c for c in plan["clients"] if c["config"].get("debug") and c["config"].get("optimizer") == "optimize"]
        if not risky:
            return None  # unexplained crash: harness error
        v.probe("engine_crash")
        v.violate("C15", "engine_crash", ["debug", "optimize"], {"signal": signum, "config": risky[0]["config"]}, None, risky[0]["id"])
        v.key = ["crash", cfg_name(risky[0]["config"])]
        return v

    def judge(self, plan, result):
        v = Verdict()
        if result.get("build_rejected"):
            v.probe("build_rejected")
            return v
        spec = result["clients"]["K0"]["spec"]
        nobj = len(spec.get("objectives", []))
        answers = []
        for c in plan["clients"]:
            cid, cfg = c["id"], c["config"]
            for k in ("debug", "random_values"):
                if cfg.get(k):
                    v.probe("cfg:" + k)
            if cfg.get("parallel"):
                v.probe("cfg:parallel(stub)")
            if cfg.get("logics"):
                v.probe("cfg:logic")
            if cfg.get("optimizer") == "optimize":
                v.probe("cfg:optimize")
            ev = next((e for e in result["events"] if e["client"] == cid and e["op"] == "solve"), None)
            if ev is None:
                continue
            name = cfg_name(cfg)
            out = ev.get("outcome")
            if out == "exception":
                if cfg.get("logics") and (c.get("uncovered_logic") or "AttributeError" in ev["exc"]):
                    v.probe("logic_exception_ignored")
                else:
                    v.violate("C15", "exception_under", [name, ev["exc"].split(":")[0]], ev["exc"], ev["seq"], cid)
                continue
            if out == "solution":
                f = self.evaluate_event(plan, result, ev)
                v.absorb_unspecified(f)
                v.rules_checked += f.checked
                for it in f.items:
                    if it["prop"] in VALIDITY_PROPS:
                        extra = ["uncovered-logic"] if c.get("uncovered_logic") else []
                        v.violate("C15", f"invalid_under/{it['prop']}:{it['rule']}", [name] + extra + it["kinds"], it["detail"], ev["seq"], cid)
                if cfg:
                    v.probe("valid_under_nondefault")
            if ev.get("faults"):
                if cfg.get("logics"):
                    v.probe("logic_unknown_ignored")
                continue
            if c.get("uncovered_logic"):
                continue
            if out == "solution" and cfg.get("optimizer") == "optimize":
                nonopt = engine_nonoptimal(ev)
                if nonopt is not None:
                    v.violate("C15", "engine_nonoptimal", sorted(set(name.split("+"))), nonopt, ev["seq"], cid)
                    continue
            if out in ("solution", "false"):
                answers.append((cid, name, cfg, out, (ev.get("model") or {}).get("OBJ") if out == "solution" else None))
        # agreement among definite answers
        for i in range(len(answers)):
            for j in range(i + 1, len(answers)):
                a, b = answers[i], answers[j]
                v.probe("verdicts_compared")
                if a[3] != b[3]:
                    v.violate("C15", "verdict_disagree", sorted(set((a[1] + "+" + b[1]).split("+"))), {a[0]: [a[1], a[3]], b[0]: [b[1], b[3]]}, None, b[0])
                    continue
                if nobj and a[3] == "solution" and a[4] is not None and b[4] is not None:
                    comparable = nobj == 1 or all(x[2].get("optimizer") != "optimize" or x[2].get("optimize_priority") == "weight" for x in (a, b))
                    capped = any(x[2].get("max_iter") for x in (a, b))
                    if comparable and not capped:
                        v.probe("optima_compared")
                        if a[4] != b[4]:
                            v.violate("C15", "optimum_disagree", sorted(set((a[1] + "+" + b[1]).split("+"))), {a[0]: [a[1], a[4]], b[0]: [b[1], b[4]]}, None, b[0])
        if len(answers) >= 2 or any(e.get("outcome") == "solution" for e in result["events"]):
            v.key = [spec_kinds(spec), sorted(cfg_name(c["config"]) for c in plan["clients"]), [a[3] for a in answers]]
        return v


CHECK = C15()
