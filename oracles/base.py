"""Common machinery of the per-property checks."""
from __future__ import annotations

import copy

from ref import semantics as sem
from sim import gen
from sim.engine import keyed_rng
from sim.spec import spec_kinds


def signature(prop, rule, kinds):
    return f"{prop}/{rule}/{'+'.join(sorted(set(kinds)))}"


class Verdict:
    def __init__(self):
        self.violations = []   # {"signature", "prop", "rule", "kinds", "detail", "seq", "client"}
        self.notes = {}        # other-property signatures noticed -> count
        self.key = None        # distinctness key when the run is non-trivial, else None
        self.probes = {}
        self.unspecified = 0
        self.rules_checked = 0

    def violate(self, prop, rule, kinds, detail=None, seq=None, client=None):
        self.violations.append({"signature": signature(prop, rule, kinds), "prop": prop, "rule": rule,
                                "kinds": sorted(set(kinds)), "detail": detail, "seq": seq, "client": client})

    def absorb_unspecified(self, f):
        """abstentions of the reference model (UNSPECIFIED verdicts), counted per rule for the evidence"""
        self.unspecified += f.unspecified
        for k, n in getattr(f, "unspec_rules", {}).items():
            self.probe("abstained:" + k, n)

    def probe(self, name, n=1):
        self.probes[name] = self.probes.get(name, 0) + n

    def to_json(self):
        return {"violations": self.violations, "notes": self.notes, "key": self.key, "probes": self.probes,
                "unspecified": self.unspecified, "rules_checked": self.rules_checked}


def decision_pins(handles, model, skip_tasks=()):
    """the decision vector of a model snapshot as pins: task times / durations / scheduled
    flags, selections, dynamic busy spans.  Auxiliary unknowns stay free."""
    pins = {}
    unsched = set(skip_tasks)
    for name, v in model.items():
        if name.startswith("x:") and v is False:
            unsched.add(name[2:])
    for name, v in model.items():
        kind, _, rest = name.partition(":")
        if kind in ("s", "e", "d"):
            if rest in unsched:
                continue
            pins[name] = v
        elif kind == "x":
            pins[name] = v
        elif kind == "sel":
            # the selection of an unscheduled (or absent) task is not part of the schedule
            sid = rest.split(":", 1)[0]
            if "@" in sid:
                users = [sid.split("@", 1)[1]]
            else:
                users = [a["task"] for a in handles.spec.get("assign", []) if a["resource"] == sid]
            if any(u not in unsched for u in users):
                pins[name] = v
        elif kind in ("lo", "hi"):
            w, _, t = rest.partition(":")
            if (w, t) in handles.dynamic_pairs and t not in unsched:
                pins[name] = v
    return pins


def resolve_perturb(world, cl, step, st):
    """F3: take the last schedule this client returned, change one decision by a small
    amount (shift / stretch a task, flip a flag, move a dynamic span, move to a boundary)
    and try to make the engine return exactly that neighbour.  Whether the neighbour is
    valid is for the oracle to say once (if) the library returns it."""
    if not cl.models or cl.models[-1] is None:
        return None
    m = dict(cl.models[-1])
    h = cl.handles
    rng = keyed_rng(world.run_seed, "perturb", st.get("key", 0))
    spec = cl.spec
    tasks = {t["id"]: t for t in spec["tasks"]}
    vals, hz = h.time_values()
    ops = []
    for tid, t in tasks.items():
        sched = m.get(f"x:{tid}", True)
        if sched:
            ops.append(("shift", tid))
            if t["kind"] == "variable":
                ops.append(("stretch", tid))
            if f"x:{tid}" in m:
                ops.append(("unschedule", tid))
        elif f"x:{tid}" in m:
            ops.append(("schedule", tid))
    for name in m:
        if name.startswith("sel:"):
            ops.append(("flipsel", name))
    for (w, t) in sorted(h.dynamic_pairs):
        if m.get(f"x:{t}", True):
            ops.append(("dyn", (w, t)))
    if not ops:
        return None
    skip = set()
    for _ in range(rng.choice([1, 1, 1, 2])):
        op, arg = rng.choice(ops)
        if op == "shift":
            delta = rng.choice([-2, -1, -1, 1, 1, 2]) if rng.random() < 0.8 else rng.choice([-m[f"s:{arg}"], hz - m[f"e:{arg}"], -m[f"s:{arg}"] - 1, hz - m[f"e:{arg}"] + 1])
            m[f"s:{arg}"] += delta
            m[f"e:{arg}"] += delta
        elif op == "stretch":
            delta = rng.choice([-1, 1, 1, 2])
            m[f"e:{arg}"] += delta
            if f"d:{arg}" in m:
                m[f"d:{arg}"] += delta
        elif op == "unschedule":
            m[f"x:{arg}"] = False
            skip.add(arg)
        elif op == "schedule":
            t = tasks[arg]
            d = t.get("duration") or (0 if t["kind"] == "zero" else max(t.get("min", 0), (t.get("allowed") or [0])[0]))
            s0 = rng.choice(vals)
            m[f"x:{arg}"] = True
            m[f"s:{arg}"], m[f"e:{arg}"] = s0, s0 + d
            if t["kind"] == "variable":
                m[f"d:{arg}"] = d
        elif op == "flipsel":
            m[arg] = not m[arg]
        elif op == "dyn":
            w, t = arg
            which = rng.choice(["lo", "hi"])
            m[f"{which}:{w}:{t}"] = m.get(f"{which}:{w}:{t}", 0) + rng.choice([-1, 1])
    pins = decision_pins(h, m, skip_tasks=skip)
    # tasks that were unscheduled in the source model keep free times
    out = {"mode": "pin", "pins": pins, "tag": "perturb"}
    return out


STEER_MODES = [None, None, {"mode": "greedy"}, {"mode": "greedy", "bias": "edge"}, {"mode": "greedy", "bias": "high"},
               {"mode": "greedy", "bias": "low"}, {"mode": "greedy", "groups": ["time", "flag", "busy", "horizon"]}]


def engine_nonoptimal(ev):
    """did z3.Optimize hand out a model whose objective value is not the optimum of the
    optimiser's own assertion set (judged by the referee in sim.engine)?  -> detail or None"""
    for t in ev.get("trace", []):
        if t.get("e") == "check" and t.get("referee"):
            for o in t["referee"]:
                if o["optimum"] is not None and o["reported"] != o["optimum"]:
                    return o
    return None


class Check:
    pid = "C00"
    title = ""
    props = frozenset()
    technique = "deterministic simulation: seeded engine-model steering + fault injection, reference-semantics oracle"
    resolvers = {"perturb": resolve_perturb}
    per_run_timeout = 90
    quick_runs = 1500
    thorough_runs = 30000

    nontrivial_rule = "the run returned at least one schedule on which this property's oracle rules were evaluated"

    def rule_text(self):
        return ("one evaluation = one seeded simulated run (plan = problem spec + scripted public-API calls + environment schedule: "
                "engine model steering, injected unknown/latency/IO faults); run i uses run_seed = H(VERIF_SEED, property, i). "
                "non-trivial: " + self.nontrivial_rule + ". distinct: different (sorted element kinds of the spec, number of schedules "
                "returned / outcome pattern, fault and steer pattern) keys.")

    def assumptions(self):
        return ["reference semantics in /verif/ref (documented meaning per element kind; UNSPECIFIED cases abstain)",
                "z3 is a correct SAT oracle for pinned checks (every model handed to the library is a genuine model of its own assertion stack)",
                "spec->objects builder in /verif/sim/spec.py uses public constructors only",
                "sampling, not proof: a clean batch is evidence over the seeds explored",
                "z3 parallel mode and real z3 timeouts are stubbed (virtual timeout, single-threaded engine)"]

    # ---- plan ---------------------------------------------------------------------------
    def profile(self, rng, tier):
        return gen.profile()

    def config(self, rng, spec, tier):
        """solver configuration of the main client"""
        return {}

    @staticmethod
    def safe_config(cfg, spec):
        """z3.Optimize does not honour the deterministic resource limit on non-linear
        objectives; such specs are only solved with the incremental optimiser."""
        if cfg.get("optimizer") == "optimize" and gen.has_nonlinear(spec):
            cfg = dict(cfg)
            cfg.pop("optimizer")
            cfg.pop("optimize_priority", None)
        return cfg

    def steer(self, rng, key, later=False):
        if later and rng.random() < 0.5:
            return {"mode": "perturb", "key": key}
        st = rng.choice(STEER_MODES)
        if st is None:
            return None
        st = dict(st)
        st["key"] = key
        return st

    def plan(self, run_seed, tier):
        rng = keyed_rng(run_seed, "plan")
        spec = gen.gen_spec(keyed_rng(run_seed, "spec"), self.profile(rng, tier))
        cfg = self.safe_config(self.config(rng, spec, tier), spec)
        plan = {"property": self.pid, "run_seed": run_seed, "sim_version": 1, "tier": tier,
                "clients": [{"id": "A", "spec": spec, "config": cfg}], "script": []}
        fault_free = rng.random() < 0.3
        plan["fault_free"] = fault_free
        step = {"client": "A", "op": "solve"}
        if not fault_free:
            st = self.steer(rng, 1)
            if st is not None:
                step["default"] = {"steer": st}
        plan["script"].append(step)
        n_more = rng.choice([0, 0, 1, 2, 3]) if not spec.get("objectives") else 0
        for j in range(n_more):
            step = {"client": "A", "op": "find_another", "if_model": True}
            if not fault_free:
                st = self.steer(rng, 10 + j, later=True)
                if st is not None:
                    step["default"] = {"steer": st}
            plan["script"].append(step)
        return plan

    # ---- execution ----------------------------------------------------------------------
    def run_world(self, plan, run_plan):
        """execute the plan (checks that compare two executions override this)"""
        return run_plan(plan, self.resolvers)

    # ---- judge --------------------------------------------------------------------------
    def spec_of(self, plan, result, cid):
        return result["clients"][cid]["spec"]

    def evaluate_event(self, plan, result, ev):
        spec = self.spec_of(plan, result, ev["client"])
        cand = sem.cand_from_solution(ev["solution"], ev.get("model"))
        meta = {"calendar": ev.get("calendar")}
        f = sem.evaluate(spec, cand, ind_names=result["clients"][ev["client"]]["ind_names"], meta=meta)
        return f

    def judge_solutions(self, plan, result, v: Verdict, props=None):
        props = self.props if props is None else props
        n_sol = 0
        for ev in result["events"]:
            if ev.get("outcome") != "solution":
                continue
            n_sol += 1
            f = self.evaluate_event(plan, result, ev)
            v.absorb_unspecified(f)
            v.rules_checked += f.checked
            for it in f.items:
                if it["prop"] in props:
                    v.violate(it["prop"] if it["prop"] == self.pid else self.pid, self.map_rule(it), it["kinds"], it["detail"], ev["seq"], ev["client"])
                else:
                    s = signature(it["prop"], it["rule"], it["kinds"])
                    v.notes[s] = v.notes.get(s, 0) + 1
        return n_sol

    def judge_crash(self, plan, signum):
        """The engine crashed the process (SIGSEGV inside libz3).  Default: no schedule was
        returned, so there is nothing this property speaks about; counted as a probe.
        Return None to make it a harness error instead."""
        v = Verdict()
        v.probe("engine_crash")
        return v

    def map_rule(self, item):
        """rule id used in this property's signature for an evaluator item"""
        if item["prop"] == self.pid:
            return item["rule"]
        return f"{item['prop']}:{item['rule']}"

    def judge(self, plan, result):
        v = Verdict()
        if result.get("build_rejected"):
            v.probe("build_rejected")
            return v
        n_sol = self.judge_solutions(plan, result, v)
        for ev in result["events"]:
            v.probe("outcome:" + str(ev.get("outcome")))
            for fk in ev.get("faults", []):
                v.probe("fault:" + fk)
        if n_sol:
            spec = plan["clients"][0]["spec"]
            v.key = [spec_kinds(spec) if isinstance(spec, dict) else spec, n_sol, result["steer_admitted"] > 0]
        return v
