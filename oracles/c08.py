"""C08 - reported indicator values equal their definition on the reported schedule."""
from sim import gen
from .base import Check, STEER_MODES


class C08(Check):
    pid = "C08"
    title = "indicator values"
    props = frozenset({"C08"})
    quick_runs = 2500
    thorough_runs = 60000
    nontrivial_rule = "at least one returned schedule of a problem with an indicator, its value recomputed from the reported schedule"
    expected_probes = ["outcome:solution"] + ["ind:" + k for k in gen.INDICATOR_KINDS] + ["has:indicator_constraint"]

    def profile(self, rng, tier):
        big = tier == "thorough"
        kinds = list(gen.INDICATOR_KINDS)
        if rng.random() < 0.5:
            kinds = rng.sample(kinds, 3)
        return gen.profile(
            n_tasks=(1, 5 if big else 4), p_optional=0.2, p_zero=0.1, p_variable=0.3, p_due=0.3, p_priority=0.5, n_workers=(1, 3), p_cumulative=0.25,
            p_select=0.4, p_assign=0.9, p_dynamic=0.15, p_delayed=0.15, p_work=0.1, p_cost=0.8, p_poly=0.12, p_horizon=0.75, slack=(0, 9),
            n_buffers=(0, 1) if rng.random() < 0.3 else (0, 0), constraints=["TaskStartAt", "TaskPrecedence", "TaskStartAfter", "ResourceUnavailable"],
            n_constraints=(0, 2), indicators=kinds, n_indicators=(1, 4), indicator_constraints=0.35,
            objectives=["MinimizeMakespan", "MinimizeFlowtime", "Priorities", "TasksStartLatest", "TasksStartEarliest", "MinimizeGreatestStartTime",
                        "MaximizeIndicator", "MinimizeIndicator", "MaximizeResourceUtilization", "MinimizeResourceCost"] if rng.random() < 0.35 else [],
            n_objectives=(1, 1),
        )

    def config(self, rng, spec, tier):
        cfg = {}
        if spec.get("objectives") and rng.random() < 0.3:
            cfg["optimizer"] = "optimize"
        if spec.get("objectives") and rng.random() < 0.4:
            cfg["max_iter"] = rng.randint(1, 3)
        return cfg

    def steer(self, rng, key, later=False):
        st = super().steer(rng, key, later)
        if st is not None and st.get("mode") == "greedy" and rng.random() < 0.3:
            # F3: also try to move the indicator unknowns themselves
            st["groups"] = ["time", "flag", "busy", "ind"]
        return st

    def judge(self, plan, result):
        v = super().judge(plan, result)
        spec = plan["clients"][0]["spec"]
        if v.key is not None:
            if not spec.get("indicators") and not spec.get("objectives"):
                v.key = None
            for i in spec.get("indicators", []):
                v.probe("ind:" + i["kind"])
            if any(c["kind"] in ("IndicatorTarget", "IndicatorBounds") for c in spec.get("constraints", [])):
                v.probe("has:indicator_constraint")
        return v


CHECK = C08()
