"""C13 - a solver object stays truthful across repeated and mixed calls (history property).

Reference model of the solver object: the set of valid schedules of the problem (asked
from a fresh *examiner* client built from the same spec) plus the blocking state the
documented API accumulates (timing vectors excluded by find_another_solution, values
excluded by find_another_solution_for_variable).  Nothing else belongs to that state.
"""
import copy

from sim import gen
from sim.engine import keyed_rng
from sim.spec import spec_kinds
from .base import Check, Verdict, resolve_perturb

SAFE_CONSTRAINTS = ["TaskStartAt", "TaskStartAfter", "TaskEndAt", "TaskEndBefore", "TaskPrecedence", "TasksStartSynced",
                    "TasksEndSynced", "TasksDontOverlap", "ResourceUnavailable", "OptionalTaskForceSchedule", "OptionalTasksDependency"]
OBJECTIVES = ["MinimizeMakespan", "MinimizeFlowtime", "TasksStartLatest", "TasksStartEarliest", "Priorities", "MinimizeGreatestStartTime",
              "MinimizeFlowtimeSingleResource"]


def examiner_spec(world, step):
    """spec of the client under test, without objectives, plus one ConstraintFromExpression
    per entry of its blocking state"""
    src = world.clients[step["args"]["of"]]
    spec = copy.deepcopy(src.spec)
    spec["objectives"] = []
    spec["name"] = "examiner"
    for k, b in enumerate(src.blocked):
        spec["constraints"].append({"id": f"blk{k}", "kind": "ConstraintFromExpression", "expr": b})
    return spec


class C13(Check):
    pid = "C13"
    title = "solver object across calls"
    props = frozenset({"C01", "C02", "C03", "C04"})
    quick_runs = 1500
    thorough_runs = 40000
    resolvers = {"perturb": resolve_perturb, "examiner_spec": examiner_spec}
    nontrivial_rule = ("the script performed at least two result-producing calls (solve / find_another*) on one solver object "
                       "and the reference model (examiner + blocking state) judged each of them")
    expected_probes = ["pattern:solve>solve", "pattern:solve>find_another", "false_judged_by_examiner", "fault:unknown",
                       "fault:virtual-timeout", "fault:interrupt", "cfg:incremental", "cfg:optimize", "cfg:none", "io_error_out_of_solve"]

    def plan(self, run_seed, tier):
        rng = keyed_rng(run_seed, "plan")
        big = tier == "thorough"
        with_obj = rng.random() < 0.6
        prof = gen.profile(
            n_tasks=(1, 4 if big else 3), p_optional=0.25, p_zero=0.1, p_variable=0.3, p_release=0.15, p_due=0.15, n_workers=(0, 2), p_select=0.3,
            p_cumulative=0.1, p_assign=0.6, p_horizon=0.85, slack=(0, 3), constraints=SAFE_CONSTRAINTS, n_constraints=(0, 2),
            objectives=OBJECTIVES if with_obj else [], n_objectives=(1, 2 if rng.random() < 0.2 else 1),
        )
        spec = gen.gen_spec(keyed_rng(run_seed, "spec"), prof)
        cfg = {}
        if spec["objectives"]:
            r = rng.random()
            if r < 0.35:
                cfg["optimizer"] = "optimize"
                cfg["optimize_priority"] = rng.choice(["pareto", "lex", "box", "weight"])
            if rng.random() < 0.25:
                cfg["max_iter"] = rng.randint(1, 4)
        if rng.random() < 0.2:
            cfg["max_time"] = rng.choice([1, 2, 5])
        if cfg.get("optimizer") != "optimize" and rng.random() < 0.1:
            cfg["debug"] = True   # every assertion - blocking clauses and pushed bounds included - is tracked
        cfg = self.safe_config(cfg, spec)
        plan = {"property": self.pid, "run_seed": run_seed, "sim_version": 1, "tier": tier,
                "clients": [{"id": "A", "spec": spec, "config": cfg}], "script": []}
        fault_free = rng.random() < 0.45
        plan["fault_free"] = fault_free
        if not fault_free and spec["objectives"] and cfg.get("optimizer") != "optimize" and rng.random() < 0.3:
            # F8: the disk fails while the incremental optimiser dumps an intermediate state,
            # i.e. an exception leaves solve() in the middle of its loop
            cfg["save_intermediate_states"] = True
            plan["fs_faults"] = [{"at": rng.choice(["open", "write", "close"]), "nth_file": rng.randint(1, 3), "nth_write": 1, "errno": rng.choice([28, 5])}]
        n_ops = rng.randint(2, 10 if big else 7)
        ops = []
        for j in range(n_ops):
            r = rng.random()
            if r < 0.08:
                ops.append("initialize")
            elif r < 0.16:
                ops.append("export_smt2")
            elif r < 0.55:
                ops.append("solve")
            elif r < 0.85:
                ops.append("find_another")
            else:
                ops.append("find_another_for")
        if "solve" not in ops[:2]:
            ops.insert(rng.randint(0, 1), "solve")
        k = 0
        for j, op in enumerate(ops):
            step = {"client": "A", "op": op}
            if op == "find_another_for":
                t = rng.choice(spec["tasks"])["id"]
                step["args"] = {"var": rng.choice([f"s:{t}", f"e:{t}"])}
            if op in ("solve", "find_another", "find_another_for"):
                if not fault_free:
                    r = rng.random()
                    env = []
                    if r < 0.2:
                        # unknown at a random check of this op
                        at = rng.choice([0, 0, 1, 2, 3])
                        env = [{} for _ in range(at)] + [{"verdict": "unknown", "reason": rng.choice(["canceled", "timeout", "incomplete"])}]
                    elif r < 0.27:
                        # the user interrupts the call (Ctrl-C) while the engine is at its n-th check;
                        # the solver object is then used again
                        at = rng.choice([0, 1, 1, 2, 3])
                        env = [{} for _ in range(at)] + [{"interrupt": True}]
                    elif r < 0.4:
                        # slow checks: trip "max time exceeded" / virtual timeout
                        lat = rng.choice([0.4, 0.9, 2.5, 6.0, 30.0])
                        env = [{"latency": lat} for _ in range(rng.randint(1, 5))]
                    elif r < 0.6:
                        st = self.steer(rng, 100 + j)
                        if st:
                            step["default"] = {"steer": st}
                    if env:
                        step["env"] = env
            plan["script"].append(step)
            if op in ("solve", "find_another", "find_another_for"):
                k += 1
                plan["script"].append({"client": f"X{k}", "op": "examine", "only_if": {"client": "A", "when": "false_no_fault"},
                                       "args": {"derive": "examiner_spec", "of": "A", "config": {}}})
        plan["clients"] += [{"id": f"X{i}", "dynamic": True, "spec": None} for i in range(1, k + 1)]
        return plan

    # ---- judge ----------------------------------------------------------------------------
    @staticmethod
    def cfg_class(cfg, spec):
        if not spec.get("objectives"):
            return "none"
        if cfg.get("optimizer") == "optimize":
            return "optimize-" + cfg.get("optimize_priority", "pareto")
        return "incremental"

    def judge(self, plan, result):
        v = Verdict()
        if result.get("build_rejected"):
            v.probe("build_rejected")
            return v
        spec = result["clients"]["A"]["spec"]
        cfg = result["clients"]["A"]["config"]
        cc = self.cfg_class(cfg, spec)
        v.probe("cfg:" + cc.split("-")[0])
        events = result["events"]
        had_solution = False
        prev_kind = None
        n_results = 0
        blocked = []
        pareto = cc == "optimize-pareto"
        tainted = False  # the library's blocking state may be larger than the model's
        for idx, ev in enumerate(events):
            if ev["client"] != "A":
                continue
            op = ev["op"]
            out = ev.get("outcome")
            for fk in ev.get("faults", []):
                v.probe("fault:" + fk)
            if op not in ("solve", "find_another", "find_another_for"):
                if out == "exception" and ev["exc"].startswith("OSError") and result.get("fs_fired"):
                    v.probe("io_error_out_of_export")   # the injected disk fault surfaced: legal
                    continue
                if out == "exception":
                    v.violate("C13", f"exception/{cc}/{op}", [ev["exc"].split(":")[0]], ev["exc"], ev["seq"], "A")
                    if op == "initialize":
                        # an exception out of initialize() leaves a half-built engine object:
                        # the exception is the finding, what follows is not judged
                        break
                continue
            pattern = f"{prev_kind or 'start'}>{op}"
            v.probe("pattern:" + pattern)
            if ev.get("depth_after"):
                v.probe("depth_left_behind")
            if out == "exception":
                if "No current solution" in ev["exc"] and not had_solution:
                    pass  # documented precondition
                elif ev["exc"].startswith("OSError") and result.get("fs_fired"):
                    v.probe("io_error_out_of_solve")  # the injected disk fault surfaced: legal; what follows is judged
                else:
                    v.violate("C13", f"exception/{cc}/{pattern}", [ev["exc"].split(":")[0]], ev["exc"], ev["seq"], "A")
                    tainted = True
            elif out == "no_progress":
                v.violate("C13", f"no_progress/{cc}/{pattern}", [], ev.get("exc"), ev["seq"], "A")
            elif out == "slow_convergence":
                v.probe("step_cap_on_monotone_descent(inconclusive)")
            elif out == "interrupted":
                v.probe("interrupted_then_reused")   # legal; what the object answers afterwards is judged
            elif out == "false":
                n_results += 1
                if ev.get("faults"):
                    v.probe("false_with_fault")
                elif pareto and had_solution:
                    v.probe("false_pareto_walk")
                elif tainted:
                    v.probe("false_after_exception_not_judged")
                else:
                    # the examiner speaks: next event of an X client
                    ex = None
                    for e2 in events[idx + 1: idx + 2]:
                        if e2.get("examine"):
                            ex = e2
                    if ex is None or ex.get("outcome") not in ("solution", "false") or ex.get("faults"):
                        v.probe("false_examiner_inconclusive")
                    else:
                        v.probe("false_judged_by_examiner")
                        if ex["outcome"] == "solution":
                            v.violate("C13", f"false_on_feasible/{cc}/{pattern}", [], {"blocked": len(blocked), "examiner": ex["solution"]["tasks"]}, ev["seq"], "A")
                        else:
                            v.probe("false_legal")
            elif out == "solution":
                n_results += 1
                had_solution = True
                f = self.evaluate_event(plan, result, ev)
                v.absorb_unspecified(f)
                v.rules_checked += f.checked
                for it in f.items:
                    if it["prop"] in self.props:
                        v.violate("C13", f"invalid_after/{cc}/{pattern}/{it['prop']}:{it['rule']}", it["kinds"], it["detail"], ev["seq"], "A")
                # blocking state respected?
                from ref import semantics as sem
                cand = sem.cand_from_solution(ev["solution"], ev.get("model"))
                sv = sem.SpecView(spec)
                for b in blocked:
                    val = sem.eval_expr(b, sv, cand)
                    if val is False:
                        v.probe("returned_a_blocked_schedule(C12 matter)")
                        break
            if ev.get("blocks") is not None:
                blocked.append(ev["blocks"])
            if out in ("solution", "false"):
                prev_kind = op
        if n_results >= 2:
            v.key = [spec_kinds(spec), cc, [e["op"] + ":" + str(e.get("outcome")) for e in events if e["client"] == "A"],
                     sorted(set(f for e in events for f in e.get("faults", [])))]
        return v


CHECK = C13()
