"""C04 - every declared resource constraint holds in every returned schedule."""
from sim import gen
from .base import Check


class C04(Check):
    pid = "C04"
    title = "resource constraints"
    props = frozenset({"C04"})
    quick_runs = 3000
    thorough_runs = 80000
    nontrivial_rule = "at least one returned schedule of a problem with a mandatory resource constraint, its documented meaning evaluated"
    expected_probes = ["outcome:solution"] + ["kind:" + k for k in gen.RESOURCE_CONSTRAINT_KINDS]

    def profile(self, rng, tier):
        big = tier == "thorough"
        kinds = list(gen.RESOURCE_CONSTRAINT_KINDS)
        if rng.random() < 0.5:
            kinds = rng.sample(kinds, 3)
        focus = gen.FOCUS["interrupted"] if rng.random() < 0.1 else {}
        return gen.profile(**focus) if focus else gen.profile(
            n_tasks=(2, 6 if big else 4), p_optional=0.2, p_zero=0.08, p_variable=0.35, n_workers=(1, 3), p_cumulative=0.25, p_select=0.6,
            p_assign=0.95, p_dynamic=0.08, p_delayed=0.08, p_work=0.1, p_horizon=0.7, slack=(2, 9),
            constraints=kinds + ["TaskStartAt", "TaskPrecedence"], n_constraints=(1, 4 if big else 3),
            objectives=["MinimizeMakespan", "MinimizeFlowtime"] if rng.random() < 0.2 else [], n_objectives=(1, 1),
        )

    def config(self, rng, spec, tier):
        cfg = {}
        if spec.get("objectives") and rng.random() < 0.3:
            cfg["optimizer"] = "optimize"
        if spec.get("objectives") and rng.random() < 0.3:
            cfg["max_iter"] = rng.randint(1, 3)
        return cfg

    def judge(self, plan, result):
        v = super().judge(plan, result)
        spec = plan["clients"][0]["spec"]
        mine = [c["kind"] for c in spec.get("constraints", []) if c["kind"] in gen.RESOURCE_CONSTRAINT_KINDS and not c.get("optional")]
        if v.key is not None:
            if not mine:
                v.key = None
            for k in set(mine):
                v.probe("kind:" + k)
        return v


CHECK = C04()
