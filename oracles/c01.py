"""C01 - returned schedules obey task timing (window, duration, release, deadline)."""
from sim import gen
from .base import Check


class C01(Check):
    pid = "C01"
    title = "task timing"
    props = frozenset({"C01"})
    quick_runs = 2500
    thorough_runs = 60000
    nontrivial_rule = "at least one returned schedule with a scheduled task, timing rules evaluated on it"
    expected_probes = ["outcome:solution", "outcome:false"]

    def profile(self, rng, tier):
        big = tier == "thorough"
        kinds = gen.TASK_CONSTRAINT_KINDS + gen.OPTIONAL_RULE_KINDS + ["WorkLoad", "ResourceUnavailable", "ResourceNonDelay"]
        return gen.profile(
            n_tasks=(1, 6 if big else 4), p_optional=0.3, p_zero=0.25, p_variable=0.35, p_release=0.45, p_due=0.45,
            p_horizon=0.6, slack=(0, 6), constraints=kinds if rng.random() < 0.6 else [], n_constraints=(0, 3),
            n_buffers=(0, 1) if rng.random() < 0.2 else (0, 0),
            objectives=["MinimizeMakespan", "MinimizeFlowtime", "TasksStartLatest", "Priorities"] if rng.random() < 0.3 else [],
            n_objectives=(1, 1),
        )

    def config(self, rng, spec, tier):
        cfg = {}
        if spec.get("objectives") and rng.random() < 0.3:
            cfg["optimizer"] = "optimize"
        if rng.random() < 0.1 and cfg.get("optimizer") != "optimize":
            cfg["debug"] = True  # debug + z3.Optimize crashes libz3 on some inputs (see C15/C19)
        if spec.get("objectives") and rng.random() < 0.3:
            cfg["max_iter"] = rng.randint(1, 3)
        return cfg


CHECK = C01()
