"""C02 - resource capacity, assignment, selection and work amount hold in every returned schedule."""
from sim import gen
from .base import Check


class C02(Check):
    pid = "C02"
    title = "resources"
    props = frozenset({"C02"})
    quick_runs = 2500
    thorough_runs = 60000
    nontrivial_rule = "at least one returned schedule of a problem that has an assignment, resource rules evaluated on it"
    expected_probes = ["outcome:solution", "has:SelectWorkers", "has:CumulativeWorker", "has:dynamic", "has:work"]

    def profile(self, rng, tier):
        big = tier == "thorough"
        kinds = ["TaskStartAt", "TaskPrecedence", "TasksStartSynced", "TasksEndSynced", "SameWorkers", "DistinctWorkers", "ResourceUnavailable", "WorkLoad"]
        if rng.random() < 0.12:
            return gen.profile(**gen.FOCUS["soft-due"])
        return gen.profile(
            n_tasks=(2, 6 if big else 5), p_optional=0.2, p_zero=0.12, p_variable=0.35, n_workers=(1, 4 if big else 3), p_cumulative=0.35,
            p_select=0.55, p_assign=0.9, p_dynamic=0.25, p_delayed=0.25, p_work=0.35, p_horizon=0.7, slack=(0, 6),
            constraints=kinds if rng.random() < 0.5 else [], n_constraints=(0, 2),
            objectives=["MinimizeMakespan", "MinimizeResourceCost", "MaximizeResourceUtilization"] if rng.random() < 0.25 else [], n_objectives=(1, 1),
        )

    def config(self, rng, spec, tier):
        cfg = {}
        if spec.get("objectives") and rng.random() < 0.3:
            cfg["optimizer"] = "optimize"
        if spec.get("objectives") and rng.random() < 0.3:
            cfg["max_iter"] = rng.randint(1, 3)
        return cfg

    def judge(self, plan, result):
        v = super().judge(plan, result)
        spec = plan["clients"][0]["spec"]
        if v.key is not None:
            if not spec.get("assign"):
                v.key = None
            for s in ("selects", "cumulative"):
                if spec.get(s):
                    v.probe("has:" + {"selects": "SelectWorkers", "cumulative": "CumulativeWorker"}[s])
            if any(a.get("dynamic") for a in spec.get("assign", [])):
                v.probe("has:dynamic")
            if any(t.get("work") for t in spec["tasks"]):
                v.probe("has:work")
        return v


CHECK = C02()
