"""C12 - asking for another solution enumerates distinct valid schedules, exhaustively (history property)."""
import copy

from ref import enumerate as enum
from ref import semantics as sem
from sim import gen
from sim.engine import keyed_rng
from sim.spec import spec_kinds
from .base import Check, Verdict, resolve_perturb
from .c13 import examiner_spec

VALIDITY_PROPS = frozenset({"C01", "C02", "C03", "C04"})
SAFE_CONSTRAINTS = ["TaskStartAfter", "TaskEndBefore", "TaskPrecedence", "TasksStartSynced", "TasksEndSynced", "TasksDontOverlap",
                    "OptionalTaskForceSchedule", "OptionalTasksDependency", "ForceScheduleNOptionalTasks", "ResourceUnavailable"]


def timing_vector(sol):
    return tuple((name, t["start"], t["end"], t["scheduled"]) for name, t in sorted(sol["tasks"].items()))


class C12(Check):
    pid = "C12"
    title = "find another solution"
    props = VALIDITY_PROPS
    quick_runs = 1200
    thorough_runs = 30000
    resolvers = {"perturb": resolve_perturb, "examiner_spec": examiner_spec}
    nontrivial_rule = ("at least two schedules were returned by one solver object, or exhaustion was reached, and distinctness / "
                       "validity / legality of the final False were judged")
    expected_probes = ["exhaustion_reached", "exhaustion_confirmed_by_examiner", "enumerator_count_compared", "fault:unknown",
                       "find_another_for_judged", "with_optional_task"]

    def plan(self, run_seed, tier):
        rng = keyed_rng(run_seed, "plan")
        big = tier == "thorough"
        prof = gen.profile(
            n_tasks=(1, 3), p_optional=0.35, p_zero=0.12, p_variable=0.25, p_release=0.1, p_due=0.1, n_workers=(0, 2), p_select=0.4,
            p_cumulative=0.1, p_assign=0.5, p_dynamic=0.1, p_horizon=1.0, slack=(0, 2 if not big else 3), constraints=SAFE_CONSTRAINTS,
            n_constraints=(0, 2), objectives=["MinimizeMakespan", "MinimizeFlowtime"] if rng.random() < 0.25 else [], n_objectives=(1, 1),
        )
        spec = gen.gen_spec(keyed_rng(run_seed, "spec"), prof)
        spec["horizon"] = min(spec["horizon"], 7 if big else 6)
        cfg = {"debug": True} if rng.random() < 0.08 else {}   # debug mode tracks every blocking clause under its own literal
        plan = {"property": self.pid, "run_seed": run_seed, "sim_version": 1, "tier": tier,
                "clients": [{"id": "A", "spec": spec, "config": cfg}], "script": [{"client": "A", "op": "solve"}]}
        fault_free = rng.random() < 0.5
        plan["fault_free"] = fault_free
        n_calls = rng.randint(3, 40 if big else 24)
        mixed = rng.random() < 0.25
        fault_at = rng.randint(0, min(n_calls - 1, 6)) if not fault_free and rng.random() < 0.5 else None
        nudged = not fault_free and rng.random() < 0.6
        for j in range(n_calls):
            op = "find_another"
            step = {"client": "A", "op": op, "if_model": True}
            if mixed and rng.random() < 0.3:
                t = rng.choice(spec["tasks"])["id"]
                step = {"client": "A", "op": "find_another_for", "if_model": True, "args": {"var": rng.choice([f"s:{t}", f"e:{t}"])}}
            if fault_at == j:
                # transient: the k-th engine check of this one call answers unknown (with an
                # objective a call runs several checks), later calls are fault-free
                k = rng.choice([0, 0, 1, 2]) if spec.get("objectives") else 0
                step["env"] = [{} for _ in range(k)] + [{"verdict": "unknown", "reason": "canceled"} if rng.random() < 0.6 else {"interrupt": True}]
            elif nudged and rng.random() < 0.7:
                step["default"] = {"steer": self.steer(rng, 200 + j, later=True) or {"mode": "greedy", "key": 200 + j}}
            plan["script"].append(step)
            plan["script"].append({"client": f"X{j}", "op": "examine", "only_if": {"client": "A", "when": "false_no_fault"},
                                   "args": {"derive": "examiner_spec", "of": "A", "config": {}}})
        plan["clients"] += [{"id": f"X{j}", "dynamic": True, "spec": None} for j in range(n_calls)]
        return plan

    def judge(self, plan, result):
        v = Verdict()
        if result.get("build_rejected"):
            v.probe("build_rejected")
            return v
        spec = result["clients"]["A"]["spec"]
        events = result["events"]
        if any(t.get("optional") for t in spec["tasks"]):
            v.probe("with_optional_task")
        seen = []
        kinds = ["optional"] if any(t.get("optional") for t in spec["tasks"]) else []
        if spec.get("objectives"):
            kinds.append("objective")
        pure = True       # only find_another so far (exhaustiveness = all distinct timings)
        tainted = False
        exhausted = False
        n_after_fault = 0
        cur = None
        last_fault_seen = False
        for idx, ev in enumerate(events):
            if ev["client"] != "A":
                continue
            op, out = ev["op"], ev.get("outcome")
            if out == "skipped":
                continue
            for fk in ev.get("faults", []):
                v.probe("fault:" + fk)
            if op == "find_another_for":
                pure = False
            if out == "exception":
                v.violate("C12", "exception/" + op, kinds + [ev["exc"].split(":")[0]], ev["exc"], ev["seq"], "A")
                tainted = True
                continue
            if out == "no_progress":
                v.violate("C12", "no_progress/" + op, kinds, ev.get("exc"), ev["seq"], "A")
                continue
            if out == "interrupted":
                # Ctrl-C inside the call: its blocking clause is in, no schedule came back; the
                # enumeration goes on and must still visit everything
                v.probe("interrupted_then_continued")
                continue
            if out == "slow_convergence":
                v.probe("step_cap_on_monotone_descent(inconclusive)")
                tainted = True
                continue
            if out == "solution":
                f = self.evaluate_event(plan, result, ev)
                v.absorb_unspecified(f)
                v.rules_checked += f.checked
                for it in f.items:
                    if it["prop"] in VALIDITY_PROPS:
                        v.violate("C12", f"invalid/{it['prop']}:{it['rule']}", it["kinds"], it["detail"], ev["seq"], "A")
                vec = timing_vector(ev["solution"])
                if op == "find_another":
                    if vec in seen:
                        v.violate("C12", "repeated", kinds, {"vector": vec, "n_seen": len(seen)}, ev["seq"], "A")
                elif op == "find_another_for":
                    v.probe("find_another_for_judged")
                    hn = ev["args"]["var"]
                    now = (ev.get("model") or {}).get(hn)
                    if ev.get("var_before") is not None and now is not None and now == ev["var_before"]:
                        v.violate("C12", "variable_unchanged", kinds, {"var": hn, "value": now}, ev["seq"], "A")
                if vec not in seen:
                    seen.append(vec)
                if exhausted and op == "find_another" and pure:
                    v.violate("C12", "solution_after_exhaustion", kinds, {"vector": vec}, ev["seq"], "A")
            elif out == "false":
                if ev.get("faults"):
                    v.probe("false_with_fault")
                    continue
                if tainted:
                    continue
                ex = events[idx + 1] if idx + 1 < len(events) and events[idx + 1].get("examine") else None
                if op in ("find_another", "find_another_for", "solve"):
                    if ex is None or ex.get("outcome") not in ("solution", "false") or ex.get("faults"):
                        v.probe("examiner_inconclusive")
                    elif ex["outcome"] == "solution":
                        v.violate("C12", f"premature_false/{op}", kinds, {"n_seen": len(seen), "examiner": timing_vector(ex["solution"])}, ev["seq"], "A")
                    else:
                        if seen:
                            v.probe("exhaustion_reached")
                            v.probe("exhaustion_confirmed_by_examiner")
                            if pure and not exhausted:
                                exhausted = True
                                self.compare_with_enumerator(spec, seen, v, kinds, ev)
        if len(seen) >= 2 or exhausted:
            v.key = [spec_kinds(spec), len(seen), exhausted, pure, sorted(set(f for e in events for f in e.get("faults", [])))]
        return v

    def compare_with_enumerator(self, spec, seen, v, kinds, ev):
        if spec.get("objectives"):
            return
        allc = enum.enumerate_all(spec, limit=5000)
        if allc is None:
            return
        if any(st == sem.U for st, *_ in allc):
            v.probe("enumerator_has_unspecified")
            return
        # the library moves an unscheduled task to the point -task_number: its timing is constant
        ref = set(enum.timing_key(c) for st, c, *_ in allc if st == sem.V)
        got = set(tuple((n, s if x else None, e if x else None, x) for (n, s, e, x) in vec) for vec in seen)
        v.probe("enumerator_count_compared")
        if got - ref:
            v.violate("C12", "visited_invalid_timing", kinds, {"extra": sorted(got - ref, key=repr)[:3]}, ev["seq"], "A")
        if ref - got:
            v.violate("C12", "not_exhaustive", kinds, {"missing": sorted(ref - got, key=repr)[:3], "visited": len(got), "reference": len(ref)}, ev["seq"], "A")


CHECK = C12()
