"""C11 - the solution object is a faithful, self-consistent report of one schedule."""
from sim import gen
from .base import Check


class C11(Check):
    pid = "C11"
    title = "solution object consistency"
    props = frozenset({"C11"})
    quick_runs = 2500
    thorough_runs = 60000
    nontrivial_rule = "at least one returned solution object, cross-checked field by field (task view, resource view, calendar times, engine model)"
    expected_probes = ["outcome:solution", "has:calendar", "has:CumulativeWorker", "has:unscheduled"]

    def profile(self, rng, tier):
        big = tier == "thorough"
        return gen.profile(
            n_tasks=(1, 6 if big else 4), p_optional=0.35, p_zero=0.2, p_variable=0.3, n_workers=(0, 3), p_cumulative=0.4, p_select=0.4,
            p_assign=0.8, p_dynamic=0.2, p_delayed=0.2, p_work=0.15, p_horizon=0.6, p_calendar=0.5, n_buffers=(0, 1) if rng.random() < 0.25 else (0, 0),
            constraints=gen.TASK_CONSTRAINT_KINDS + gen.OPTIONAL_RULE_KINDS if rng.random() < 0.4 else [], n_constraints=(0, 2),
            indicators=["ResourceUtilization", "NumberTasksAssigned", "ResourceCost"] if rng.random() < 0.3 else [], n_indicators=(1, 2),
            objectives=["MinimizeMakespan", "MinimizeFlowtime"] if rng.random() < 0.25 else [], n_objectives=(1, 1),
        )

    def config(self, rng, spec, tier):
        cfg = {}
        if spec.get("objectives") and rng.random() < 0.3:
            cfg["optimizer"] = "optimize"
        if spec.get("objectives") and rng.random() < 0.3:
            cfg["max_iter"] = rng.randint(1, 3)
        return cfg

    def judge(self, plan, result):
        v = super().judge(plan, result)
        spec = plan["clients"][0]["spec"]
        if v.key is not None:
            if spec.get("delta_time_s"):
                v.probe("has:calendar")
            if spec.get("cumulative"):
                v.probe("has:CumulativeWorker")
            for ev in result["events"]:
                if ev.get("outcome") == "solution" and any(not t["scheduled"] for t in ev["solution"]["tasks"].values()):
                    v.probe("has:unscheduled")
                    break
        return v


CHECK = C11()
