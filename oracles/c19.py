"""C19 - infeasibility diagnosis names constraints that really conflict.

Clients: D (debug=True), N (same spec, debug=False), R (re-solver: the spec restricted to
the constraints D named - every task, resource, buffer and buffer access kept).
Environment: seeded z3 seeds (random_values), seeded tracking-literal entropy with an
injected 32-bit collision (F9), another solver constructed with debug=False between D's
construction and D's solve (the unsat-core switch is process-global, F10).
"""
import copy

from sim import gen
from sim.engine import keyed_rng, HarnessError
from sim.spec import spec_kinds
from .base import Check, Verdict

VALIDITY_PROPS = frozenset({"C01", "C02", "C03", "C04"})
IRRELEVANT = ["TaskStartAfter", "TaskEndBefore", "TaskPrecedence", "TasksStartSynced", "TasksEndSynced", "TasksDontOverlap", "ResourceUnavailable",
              "WorkLoad", "TasksContiguous", "ScheduleNTasksInTimeIntervals", "OptionalTaskForceSchedule", "UnorderedTaskGroup"]


def plant_conflict(spec, rng):
    """add 1-3 mutually contradictory constraints; returns their ids"""
    tasks = spec["tasks"]
    mand = [t for t in tasks if not t.get("optional")]
    if not mand:
        tasks[0].pop("optional", None)
        mand = [tasks[0]]
    hz = gen.est_horizon(spec)
    t = rng.choice(mand)
    kind = rng.choice(["two_starts", "window", "cycle", "beyond_horizon", "force", "sync_vs_order", "unavailable_all", "workload_zero", "contiguous_vs_gap",
                       "unavailable_all", "workload_zero", "forced_optional", "forced_optional"])
    # constraints that carry several assertions (one per busy interval / per interval) - the
    # conflict then does not go through a particular one of them
    busy = {}
    for a in spec.get("assign", []):
        if a["resource"].startswith("w") and not a.get("dynamic"):
            tk = next(x for x in tasks if x["id"] == a["task"])
            if not tk.get("optional") and (tk.get("duration") or tk.get("min")):
                busy.setdefault(a["resource"], []).append(tk)
    if kind in ("unavailable_all", "workload_zero") and not busy:
        kind = "two_starts"
    if kind == "contiguous_vs_gap" and len([x for x in mand if x.get("duration") or x.get("min")]) < 2:
        kind = "window"
    ids = []

    def add(c):
        c["id"] = f"k{len(ids)+1}"
        spec["constraints"].append(c)
        ids.append(c["id"])
    if kind == "forced_optional":
        # an optional constraint that a force-apply rule makes mandatory, against a mandatory one
        a = rng.randint(0, max(0, hz - 2))
        add({"kind": "TaskStartAt", "task": t["id"], "value": a + rng.randint(1, 2), "optional": True})
        opt_id = ids[-1]
        add({"kind": "TaskStartAt", "task": t["id"], "value": a})
        add({"kind": "ForceApplyNOptionalConstraints", "constraints": [opt_id], "nb": 1, "mode": rng.choice(["exact", "min"])})
    elif kind == "unavailable_all":
        w = rng.choice(sorted(busy))
        m = rng.randint(1, max(1, hz - 1))
        add({"kind": "ResourceUnavailable", "resource": w, "intervals": [[0, m], [m, hz + 6]]})
    elif kind == "workload_zero":
        w = rng.choice(sorted(busy))
        m = rng.randint(1, max(1, hz - 1))
        add({"kind": "WorkLoad", "resource": w, "intervals": [[0, m, 0], [m, hz + 6, 0]], "mode": rng.choice(["max", "exact"])})
    elif kind == "contiguous_vs_gap":
        a, b = rng.sample([x for x in mand if x.get("duration") or x.get("min")], 2)
        add({"kind": "TasksContiguous", "tasks": [a["id"], b["id"]]})
        add({"kind": "TaskPrecedence", "before": a["id"], "after": b["id"], "offset": rng.randint(1, 2), "mode": "tight"})
        add({"kind": "TaskPrecedence", "before": a["id"], "after": b["id"], "offset": 0, "mode": "lax"})
    elif kind == "two_starts":
        a = rng.randint(0, max(0, hz - 2))
        add({"kind": "TaskStartAt", "task": t["id"], "value": a})
        add({"kind": "TaskStartAt", "task": t["id"], "value": a + rng.randint(1, 2)})
    elif kind == "window":
        v = rng.randint(1, max(1, hz - 1))
        add({"kind": "TaskStartAfter", "task": t["id"], "value": v, "mode": rng.choice(["lax", "strict"])})
        add({"kind": "TaskEndBefore", "task": t["id"], "value": v, "mode": rng.choice(["lax", "strict"]) if t["kind"] != "zero" and (t.get("duration") or t.get("min")) else "strict"})
    elif kind == "cycle" and len(mand) >= 2:
        a, b = rng.sample(mand, 2)
        for x in (a, b):
            if x["kind"] == "zero":
                x["kind"], x["duration"] = "fixed", 1
            if x["kind"] == "variable" and not x.get("min"):
                x["min"] = 1
                if x.get("max") is not None:
                    x["max"] = max(x["max"], 1)
                if x.get("allowed") is not None:
                    x.pop("allowed")
        add({"kind": "TaskPrecedence", "before": a["id"], "after": b["id"], "offset": rng.choice([0, 1]), "mode": "lax"})
        add({"kind": "TaskPrecedence", "before": b["id"], "after": a["id"], "offset": 0, "mode": rng.choice(["lax", "strict"])})
        if rng.random() < 0.3 and len(mand) >= 3:
            pass
    elif kind == "beyond_horizon" and spec.get("horizon") is not None:
        add({"kind": "TaskStartAfter", "task": t["id"], "value": spec["horizon"] + rng.randint(0, 2), "mode": "strict"})
    elif kind == "force":
        opt = [x for x in tasks if x.get("optional")]
        if not opt:
            tasks[-1]["optional"] = True
            opt = [tasks[-1]]
            if tasks[-1] is t and len(tasks) == 1:
                pass
        o = rng.choice(opt)
        add({"kind": "OptionalTaskForceSchedule", "task": o["id"], "flag": True})
        add({"kind": "OptionalTaskForceSchedule", "task": o["id"], "flag": False})
    else:  # sync_vs_order (needs two tasks with a positive duration) - falls back to two end values
        if len(mand) >= 2:
            a, b = rng.sample(mand, 2)
            add({"kind": "TasksStartSynced", "t1": a["id"], "t2": b["id"]})
            add({"kind": "TaskPrecedence", "before": a["id"], "after": b["id"], "offset": 1, "mode": "lax"})
            if a["kind"] == "zero" or (a["kind"] == "variable" and not a.get("min")):
                # start(b) = start(a) and end(a) + 1 <= start(b) still contradict: end >= start
                pass
        else:
            a = rng.randint(1, hz)
            add({"kind": "TaskEndAt", "task": t["id"], "value": a})
            add({"kind": "TaskEndAt", "task": t["id"], "value": a + 1})
    return ids


def restrict_to_named(world, step):
    d = world.clients[step["args"]["of"]]
    ev = next((e for e in reversed(world.events) if e["client"] == d.id and e["op"] == "solve"), None)
    if ev is None or ev.get("diagnosis") is None:
        return None
    named = set(ev["diagnosis"])
    spec = copy.deepcopy(d.spec)
    kept = [c for c in spec["constraints"] if c["id"] in named or c["kind"] in ("TaskLoadBuffer", "TaskUnloadBuffer")]
    # a named force-apply rule refers to optional constraints; those that were not named stay
    # as vacuous optional constraints (the rule itself only speaks about their applied flags)
    kept_ids = set(c["id"] for c in kept)
    for c in list(kept):
        if c["kind"] == "ForceApplyNOptionalConstraints":
            for ref in c["constraints"]:
                if ref not in kept_ids:
                    kept.insert(0, {"id": ref, "kind": "ConstraintFromExpression", "expr": True, "optional": True})
                    kept_ids.add(ref)
    spec["constraints"] = kept
    spec["name"] = "resolver"
    return spec


class C19(Check):
    pid = "C19"
    title = "infeasibility diagnosis"
    props = VALIDITY_PROPS
    quick_runs = 1200
    thorough_runs = 30000
    resolvers = {"restrict_to_named": restrict_to_named}
    nontrivial_rule = ("debug mode printed a diagnosis that was read (names checked, named subset re-solved), or the verdicts of the debug and "
                       "the normal client were compared on the same spec")
    expected_probes = ["diagnosis_read", "named_subset_resolved", "verdicts_compared", "feasible_spec", "planted_conflict", "uuid_collision_fired",
                       "other_solver_between", "random_values", "irrelevant_named"]

    def plan(self, run_seed, tier):
        rng = keyed_rng(run_seed, "plan")
        big = tier == "thorough"
        prof = gen.profile(
            n_tasks=(1, 5 if big else 4), p_optional=0.2, p_zero=0.1, p_variable=0.3, p_release=0.1, p_due=0.1, n_workers=(0, 2), p_select=0.3,
            p_cumulative=0.15, p_assign=0.6, p_dynamic=0.1, p_work=0.1, p_horizon=0.85, slack=(1, 6), constraints=IRRELEVANT,
            n_constraints=(0, 4), n_buffers=(0, 1) if rng.random() < 0.1 else (0, 0),
        )
        spec = gen.gen_spec(keyed_rng(run_seed, "spec"), prof)
        planted = []
        feasible_wanted = rng.random() < 0.3
        if not feasible_wanted:
            planted = plant_conflict(spec, keyed_rng(run_seed, "conflict"))
            rng2 = keyed_rng(run_seed, "shuffle")
            rng2.shuffle(spec["constraints"])
        cfgD = {"debug": True}
        if rng.random() < 0.3:
            cfgD["random_values"] = True
        plan = {"property": self.pid, "run_seed": run_seed, "sim_version": 1, "tier": tier, "planted": planted,
                "clients": [{"id": "D", "spec": spec, "config": cfgD}, {"id": "N", "spec": "=D", "config": {k: v for k, v in cfgD.items() if k != "debug"}},
                            {"id": "R", "dynamic": True, "spec": None}], "script": []}
        script = [{"client": "D", "op": "ctor"}]
        between = rng.random() < 0.35
        if between:
            script.append({"client": "N", "op": "ctor"})   # F10: flips the process-global unsat_core option
        script.append({"client": "D", "op": "solve"})
        script.append({"client": "R", "op": "examine", "args": {"derive": "restrict_to_named", "of": "D", "config": {}}})
        script.append({"client": "N", "op": "solve"})
        plan["script"] = script
        plan["other_solver_between"] = between
        if rng.random() < 0.25:
            # F9: two tracking literals of D's initialisation share their 8 hex digits
            plan["uuid_collide"] = [rng.randint(2, 12)]
        return plan

    def judge(self, plan, result):
        v = Verdict()
        if result.get("build_rejected"):
            v.probe("build_rejected")
            return v
        spec = result["clients"]["D"]["spec"]
        names = set(c["id"] for c in spec.get("constraints", []))
        planted = set(plan.get("planted") or [])
        if planted:
            v.probe("planted_conflict")
        if plan.get("other_solver_between"):
            v.probe("other_solver_between")
        if result["clients"]["D"]["config"].get("random_values"):
            v.probe("random_values")
        if result.get("uuid_collisions"):
            v.probe("uuid_collision_fired")
        kinds = []
        if result.get("uuid_collisions"):
            kinds.append("uuid-collision")
        if plan.get("other_solver_between"):
            kinds.append("other-solver-between")
        evD = next((e for e in result["events"] if e["client"] == "D" and e["op"] == "solve"), None)
        evN = next((e for e in result["events"] if e["client"] == "N" and e["op"] == "solve"), None)
        evR = next((e for e in result["events"] if e["client"] == "R"), None)
        judged = False
        if evD is None:
            return v
        if evD.get("outcome") == "exception":
            v.violate("C19", "debug_exception", kinds + [evD["exc"].split(":")[0]], evD["exc"], evD["seq"], "D")
        if evD.get("outcome") == "solution":
            v.probe("feasible_spec")
            f = self.evaluate_event(plan, result, evD)
            v.absorb_unspecified(f)
            v.rules_checked += f.checked
            for it in f.items:
                if it["prop"] in VALIDITY_PROPS:
                    s = f"{it['prop']}/{it['rule']}"
                    v.notes[s] = v.notes.get(s, 0) + 1
        # verdict(D) == verdict(N)
        if evN is not None and evD.get("outcome") in ("solution", "false") and evN.get("outcome") in ("solution", "false") \
                and not evD.get("faults") and not evN.get("faults"):
            judged = True
            v.probe("verdicts_compared")
            if evD["outcome"] != evN["outcome"]:
                v.violate("C19", "debug_changes_verdict", kinds, {"debug": evD["outcome"], "normal": evN["outcome"]}, evD["seq"], "D")
        elif evN is not None and evN.get("outcome") == "exception":
            v.violate("C19", "normal_exception", kinds + [evN["exc"].split(":")[0]], evN["exc"], evN["seq"], "N")
        # the diagnosis
        if evD.get("outcome") == "false" and not evD.get("faults"):
            diag = evD.get("diagnosis")
            if diag is None:
                if "unsat_msg" in (evD.get("prints") or []):
                    v.violate("C19", "no_diagnosis_printed", kinds, None, evD["seq"], "D")
            else:
                judged = True
                v.probe("diagnosis_read")
                alien = [n for n in diag if n not in names]
                if alien:
                    v.violate("C19", "named_not_in_problem", kinds, {"named": diag, "alien": alien}, evD["seq"], "D")
                if planted and set(diag) - planted:
                    v.probe("irrelevant_named")
                if evR is not None and evR.get("outcome") in ("solution", "false") and not evR.get("faults"):
                    v.probe("named_subset_resolved")
                    if evR["outcome"] == "solution":
                        v.violate("C19", "named_subset_feasible", kinds, {"named": diag, "planted": sorted(planted)}, evD["seq"], "D")
        if judged:
            v.key = [spec_kinds(spec), evD.get("outcome"), sorted(evD.get("diagnosis") or [])[:4], kinds]
        return v


CHECK = C19()
