"""One module per property: plan generation (workload + environment schedule) and judging."""
import importlib

CLAIMED = ["C01", "C02", "C03", "C04", "C05", "C06", "C07", "C08", "C09", "C10", "C11", "C12", "C13", "C14", "C15", "C16", "C19"]


def get_check(pid):
    mod = importlib.import_module(f"oracles.{pid.lower()}")
    return mod.CHECK
