"""C05 - no valid schedule is lost: infeasibility verdicts are truthful.

Candidates that the reference model classifies VALID on *every* element of the spec
(enumerated exhaustively for tiny specs, otherwise drawn by a seeded sampler) are pinned
- full decision vector: start / end / duration / scheduled flags, selections, dynamic busy
spans; every auxiliary unknown stays free - on the first engine check of a solve().
The pin must be admitted; a refusal is a lost schedule.  If at least one VALID candidate
exists, an unpinned fault-free solve() must not answer False.
"""
import copy

from ref import enumerate as enum
from ref import semantics as sem
from sim import gen
from sim.engine import keyed_rng
from sim.spec import spec_kinds
from sim.world import run_plan
from .base import Check, Verdict

ALL_CONSTRAINTS = gen.TASK_CONSTRAINT_KINDS + gen.OPTIONAL_RULE_KINDS + gen.RESOURCE_CONSTRAINT_KINDS + ["GroupPrecedence"]


class C05(Check):
    pid = "C05"
    title = "no valid schedule is lost"
    props = frozenset()
    quick_runs = 2200
    thorough_runs = 40000
    nontrivial_rule = "at least one reference-VALID candidate schedule was pinned on a solve() of the real solver and the admission was judged"
    expected_probes = ["mode:enumerated", "mode:sampled", "pin_admitted", "unpinned_solve_judged", "has:optional", "has:select", "has:buffer"]

    def profile(self, rng, tier):
        big = tier == "thorough"
        kinds = list(ALL_CONSTRAINTS)
        r = rng.random()
        if r < 0.5:
            kinds = rng.sample(kinds, 3)
        elif r < 0.6:
            kinds = []
        r = rng.random()
        if r < 0.06:
            return gen.profile(**gen.FOCUS["interrupted"])
        if r < 0.18:
            return gen.profile(**gen.FOCUS["resource-rules"])
        return gen.profile(
            n_tasks=(1, 4 if big else 3), p_optional=0.3, p_zero=0.12, p_variable=0.3, p_release=0.25, p_due=0.25, n_workers=(0, 3),
            p_cumulative=0.15, p_select=0.45, p_assign=0.7, p_dynamic=0.15, p_delayed=0.15, p_work=0.25, p_horizon=0.9, slack=(0, 4),
            constraints=kinds, n_constraints=(0, 3), n_buffers=(0, 1) if rng.random() < 0.25 else (0, 0),
            indicators=["ResourceUtilization", "NumberTasksAssigned", "ResourceCost", "Tardiness", "FromMathExpression"] if rng.random() < 0.2 else [],
            n_indicators=(1, 2), indicator_constraints=0.7, p_optional_constraint=0.25,
        )

    def plan(self, run_seed, tier):
        rng = keyed_rng(run_seed, "plan")
        spec = gen.gen_spec(keyed_rng(run_seed, "spec"), self.profile(rng, tier))
        K = 8 if tier == "quick" else 16
        mode = "sampled"
        allc = enum.enumerate_all(spec, limit=2500 if tier == "quick" else 8000) if spec.get("horizon") is not None and spec["horizon"] <= 9 else None
        if allc is not None:
            mode = "enumerated"
            cands = allc
        else:
            cands = enum.sample(spec, keyed_rng(run_seed, "sample"), tries=120, want=K)
        valid = [c for c in cands if c[0] == sem.V]
        n_valid, n_unspec = len(valid), sum(1 for c in cands if c[0] == sem.U)
        crng = keyed_rng(run_seed, "choose")
        chosen = crng.sample(valid, min(K, len(valid)))
        plan = {"property": self.pid, "run_seed": run_seed, "sim_version": 1, "tier": tier, "fault_free": True,
                "ref": {"mode": mode, "n_candidates": len(cands), "n_valid": n_valid, "n_unspecified": n_unspec},
                "clients": [{"id": "A", "spec": spec, "config": {}}], "script": [{"client": "A", "op": "solve"}]}
        for st, c, sels, dyn in chosen:
            pins = enum.cand_pins(spec, c, sels, dyn)
            plan["script"].append({"client": "A", "op": "solve",
                                   "env": [{"steer": {"mode": "pin", "pins": pins, "expect": "admit", "tag": "valid-candidate"}}]})
        return plan

    # ---- judge ----------------------------------------------------------------------------
    def judge(self, plan, result):
        v = Verdict()
        if result.get("build_rejected"):
            v.probe("build_rejected")
            return v
        spec = result["clients"]["A"]["spec"]
        ref = plan.get("ref", {})
        v.probe("mode:" + ref.get("mode", "?"))
        if any(t.get("optional") for t in spec["tasks"]):
            v.probe("has:optional")
        if spec.get("selects"):
            v.probe("has:select")
        if spec.get("buffers"):
            v.probe("has:buffer")
        n_pinned = 0
        for ev in result["events"]:
            if ev["client"] != "A" or ev["op"] != "solve":
                continue
            steers = ev.get("steers") or []
            pinned = [s for s in steers if s.get("tag") == "valid-candidate"]
            if ev.get("outcome") == "exception":
                v.violate("C05", "exception", [ev["exc"].split(":")[0]], ev["exc"], ev["seq"], "A")
                continue
            if not pinned:
                # the unpinned solve (the reference is asked again on the spec as it is now:
                # a minimised replay must stay a true statement about its own spec)
                if ev.get("outcome") == "false" and not ev.get("faults") and \
                        enum.has_valid(spec, keyed_rng(plan["run_seed"], "sample")) is True:
                    culprits = self.culprits(plan, spec, None)
                    v.violate("C05", "false_unsat", culprits, {"mode": ref.get("mode")}, ev["seq"], "A")
                if ev.get("outcome") in ("solution", "false") and not ev.get("faults"):
                    v.probe("unpinned_solve_judged")
                continue
            st = pinned[0]
            n_pinned += 1
            if st.get("admitted"):
                v.probe("pin_admitted")
            elif st.get("why") == "unknown":
                v.probe("pin_inconclusive")
            else:
                pins = st.get("pins") or plan["script"][ev["seq"]]["env"][0]["steer"]["pins"]
                # re-validate the candidate against the spec as it is now
                rebuilt = enum.cand_from_pins(spec, pins)
                if rebuilt is None or enum.classify(spec, rebuilt[0])[0] != sem.V:
                    v.probe("pin_not_valid_for_this_spec")
                    continue
                culprits = self.culprits(plan, spec, pins)
                v.violate("C05", "lost_schedule", culprits, {"pins": pins}, ev["seq"], "A")
        if n_pinned:
            v.key = [spec_kinds(spec), ref.get("mode"), min(n_pinned, 3)]
        return v

    def culprits(self, plan, spec, pins):
        """which single elements, when removed, make the candidate admitted (signature kinds)"""
        from sim.shrink import spec_variants
        found = set()
        base_kinds = None
        tried = 0
        for s2 in spec_variants(spec):
            if s2 is None:
                continue
            tried += 1
            if tried > 40:
                break
            diff = self.diff_kinds(spec, s2)
            if not diff or diff in found:
                continue
            step = {"client": "A", "op": "solve"}
            if pins is not None:
                step["env"] = [{"steer": {"mode": "pin", "pins": pins, "tag": "valid-candidate"}}]
            p2 = {"property": self.pid, "run_seed": plan["run_seed"], "sim_version": 1, "clients": [{"id": "A", "spec": s2, "config": {}}],
                  "script": [step], "trace_level": 1}
            try:
                r2 = run_plan(p2, {})
            except Exception:  # noqa: BLE001
                continue
            if r2.get("build_rejected"):
                continue
            ev = r2["events"][0]
            if pins is not None:
                st = (ev.get("steers") or [{}])[0]
                ok = bool(st.get("admitted"))
            else:
                ok = ev.get("outcome") == "solution"
            if ok:
                found.add(diff)
        return sorted(found) if found else ["multi"]

    @staticmethod
    def diff_kinds(a, b):
        """a coarse name for what spec b lacks compared with spec a"""
        ca = {c["id"]: c for c in a.get("constraints", [])}
        cb = {c["id"] for c in b.get("constraints", [])}
        gone = [ca[i] for i in ca if i not in cb]
        if len(gone) == 1 and len(a["tasks"]) == len(b["tasks"]) and len(a.get("assign", [])) == len(b.get("assign", [])):
            c = gone[0]
            name = c["kind"] + ("." + c["mode"] if c.get("mode") else "")
            return f"Optional({name})" if c.get("optional") else name
        if len(a["tasks"]) == len(b["tasks"]) and not gone:
            for ta, tb in zip(a["tasks"], b["tasks"]):
                for field in ("optional", "release", "due", "work", "allowed", "max", "priority"):
                    if ta.get(field) is not None and tb.get(field) is None:
                        return "task." + field
                if ta["kind"] != tb["kind"]:
                    return "task.kind=" + ta["kind"]
            if len(a.get("assign", [])) == len(b.get("assign", [])):
                for xa, xb in zip(a.get("assign", []), b.get("assign", [])):
                    for field in ("dynamic", "delay_in", "early_out"):
                        if xa.get(field) and not xb.get(field):
                            return "assign." + field
            if len(a.get("indicators", [])) > len(b.get("indicators", [])):
                gone_i = [i for i in a["indicators"] if i["id"] not in {x["id"] for x in b["indicators"]}]
                return "Indicator" + gone_i[0]["kind"] if gone_i else None
            if len(a.get("buffers", [])) > len(b.get("buffers", [])):
                return "buffer"
            if a.get("horizon") != b.get("horizon"):
                return "horizon"
        return None


CHECK = C05()
