"""C16 - exports (JSON, CSV/DataFrame, Excel, SMT-LIB) reproduce the data exactly.

I/O seam: the repository's own open() calls (to_json_file, export_to_smt2) write to an
in-memory file system with injected faults (error at open / n-th write / close, short
write); pandas and xlsxwriter write real files into a per-run scratch directory.
Everything written is read back with independent parsers (json, csv, zipfile+xml, z3's
SMT-LIB parser) and compared with the solution object field by field.
"""
import csv
import io
import json

import z3

from sim import gen
from sim.engine import keyed_rng, _val
from sim.spec import spec_kinds
from .base import Check, Verdict, resolve_perturb

VALIDITY_PROPS = frozenset({"C01", "C02", "C03", "C04"})


def smt2_model_pins(world, cl, step, st):
    """parse the SMT-LIB text client `of` exported, solve it with a fresh z3 object and
    return the decision values of its model (by unknown name) as pins for this client"""
    src = world.clients[st["of"]]
    path = world.env.fs._norm(st["path"])
    text = world.env.fs.files.get(path)
    if not text or any(f["path"] == path for f in world.env.fs.fired):
        return None  # nothing exported, or the export was cut short by an injected fault
    try:
        if "(minimize" in text or "(maximize" in text:
            s = z3.Optimize()
            s.from_string(text)
        else:
            s = z3.Solver()
            s.from_string(text)
        s.set("rlimit", 3_000_000)
        r = s.check()
    except z3.Z3Exception as exc:
        world.smt2_parse = {"ok": False, "error": str(exc)[:200]}
        return None
    world.smt2_parse = {"ok": True, "verdict": str(r)}
    if r != z3.sat:
        return None
    m = s.model()
    byname = {d.name(): m[d] for d in m.decls()}
    pins = {}
    for hn, var in cl.handles.vars.items():
        kind = hn.split(":", 1)[0]
        if kind not in ("s", "e", "d", "x", "sel", "lo", "hi"):
            continue
        val = byname.get(str(var))
        if val is None:
            continue
        if z3.is_int_value(val):
            pins[hn] = val.as_long()
        elif z3.is_true(val):
            pins[hn] = True
        elif z3.is_false(val):
            pins[hn] = False
    if not pins:
        return None
    return {"mode": "pin", "pins": pins, "expect": "admit", "tag": "smt2-model"}


class C16(Check):
    pid = "C16"
    title = "exports"
    props = VALIDITY_PROPS
    quick_runs = 1000
    thorough_runs = 25000
    resolvers = {"perturb": resolve_perturb, "smt2_model": smt2_model_pins}
    nontrivial_rule = "a solution (or a problem) was exported through at least one channel and read back with an independent parser"
    expected_probes = ["json_checked", "json_file_checked", "df_checked", "csv_checked", "csv_file_checked", "xlsx_checked", "smt2_checked",
                       "smt2_model_pinned", "roundtrip_task_checked", "roundtrip_cost_checked", "io_fault_fired", "io_fault_raised",
                       "has:unscheduled", "has:buffer", "has:indicator", "has:calendar", "smt2_optimize"]

    def plan(self, run_seed, tier):
        rng = keyed_rng(run_seed, "plan")
        big = tier == "thorough"
        with_obj = rng.random() < 0.35
        prof = gen.profile(
            n_tasks=(1, 5 if big else 4), p_optional=0.35, p_zero=0.15, p_variable=0.3, p_release=0.15, p_due=0.3, p_priority=0.4, n_workers=(0, 3),
            p_select=0.4, p_cumulative=0.25, p_assign=0.8, p_dynamic=0.12, p_delayed=0.12, p_work=0.15, p_cost=0.7, p_horizon=0.8, slack=(0, 5),
            p_calendar=0.35, n_buffers=(0, 1) if rng.random() < 0.3 else (0, 0),
            constraints=["TaskStartAfter", "TaskPrecedence", "TasksDontOverlap", "OptionalTaskForceSchedule", "ResourceUnavailable"], n_constraints=(0, 2),
            indicators=["ResourceUtilization", "NumberTasksAssigned", "ResourceCost", "Tardiness", "FromMathExpression", "MaxBufferLevel"], n_indicators=(0, 3),
            objectives=["MinimizeMakespan", "MinimizeFlowtime", "Priorities"] if with_obj else [], n_objectives=(1, 1),
        )
        spec = gen.gen_spec(keyed_rng(run_seed, "spec"), prof)
        cfg = {}
        if spec.get("objectives") and rng.random() < 0.5:
            cfg["optimizer"] = "optimize"
            cfg["optimize_priority"] = rng.choice(["lex", "pareto", "weight"])
        if cfg.get("optimizer") != "optimize" and rng.random() < 0.2:
            cfg["debug"] = True   # tracked assertions: the exported text must still denote the system the solver checks
        cfg = self.safe_config(cfg, spec)
        plan = {"property": self.pid, "run_seed": run_seed, "sim_version": 1, "tier": tier, "needs_scratch": True,
                "clients": [{"id": "A", "spec": spec, "config": cfg}, {"id": "A3", "spec": "=A", "config": {}}], "script": []}
        fault_free = rng.random() < 0.6
        plan["fault_free"] = fault_free
        st = self.steer(rng, 1) if not spec.get("objectives") else None
        step = {"client": "A", "op": "solve"}
        if st:
            step["default"] = {"steer": st}
        script = []
        if rng.random() < 0.5:
            script.append({"client": "A", "op": "export_smt2", "args": {"path": "before.smt2"}})
        script.append(step)
        ops = ["to_json", "to_json_file", "to_df", "to_csv", "to_csv_file", "to_excel", "export_smt2", "roundtrip_task", "roundtrip_cost", "to_json_file"]
        rng.shuffle(ops)
        n_files = 0
        for op in ops[: rng.randint(4, len(ops))]:
            if op == "to_json":
                script.append({"client": "A", "op": "to_json", "args": {"compact": rng.random() < 0.5}})
            elif op == "to_json_file":
                n_files += 1
                script.append({"client": "A", "op": "to_json_file", "args": {"path": f"sol{n_files}.json", "compact": rng.random() < 0.5}})
            elif op == "to_csv":
                script.append({"client": "A", "op": "to_csv", "args": {"sep": rng.choice([",", ";", "\t"])}})
            elif op == "to_csv_file":
                script.append({"client": "A", "op": "to_csv_file", "args": {"sep": rng.choice([",", ";"])}})
            elif op == "to_excel":
                script.append({"client": "A", "op": "to_excel", "args": {"colors": rng.random() < 0.5}})
            elif op == "export_smt2":
                script.append({"client": "A", "op": "export_smt2", "args": {"path": "after.smt2"}})
            elif op == "roundtrip_task":
                t = rng.choice(spec["tasks"])["id"]
                script.append({"client": "A", "op": "roundtrip", "args": {"kind": "task", "id": t}})
            elif op == "roundtrip_cost":
                ws = [w["id"] for w in spec.get("workers", []) if w.get("cost")]
                if ws:
                    script.append({"client": "A", "op": "roundtrip", "args": {"kind": "cost", "id": rng.choice(ws)}})
            else:
                script.append({"client": "A", "op": op})
        # the exported constraint system is solved on its own and its model pinned on a fresh client
        last_smt = [s for s in script if s["op"] == "export_smt2"]
        if last_smt:
            script.append({"client": "A3", "op": "solve", "env": [{"steer": {"mode": "smt2_model", "of": "A", "path": last_smt[-1]["args"]["path"], "keep_symbolic": True}}]})
        if not fault_free:
            n_w = sum(1 for s in script if s["op"] in ("to_json_file", "export_smt2"))
            if n_w:
                plan["fs_faults"] = [{"at": rng.choice(["open", "write", "write", "close"]), "nth_file": rng.randint(1, n_w), "nth_write": 1,
                                      "errno": rng.choice([28, 5, 13, 30]), "how": rng.choice(["error", "short"])}]
        plan["script"] = script
        return plan

    def run_world(self, plan, run_plan):
        from sim.world import World
        w = World(plan, self.resolvers)
        w.smt2_parse = None
        res = w.run()
        res["smt2_parse"] = w.smt2_parse
        return res

    # ---- judge ----------------------------------------------------------------------------
    def judge(self, plan, result):
        v = Verdict()
        if result.get("build_rejected"):
            v.probe("build_rejected")
            return v
        spec = result["clients"]["A"]["spec"]
        if spec.get("buffers"):
            v.probe("has:buffer")
        if spec.get("indicators"):
            v.probe("has:indicator")
        if spec.get("delta_time_s"):
            v.probe("has:calendar")
        cfg = result["clients"]["A"]["config"]
        events = result["events"]
        fired = result.get("fs_fired", [])
        faulty_paths = set(f["path"] for f in fired)
        if fired:
            v.probe("io_fault_fired", len(fired))
        sol = None
        solve_ev = None
        exported = 0
        good_files = {}     # path -> content as first written without a fault
        for ev in events:
            if ev["client"] != "A":
                continue
            op, out = ev["op"], ev.get("outcome")
            if op == "solve":
                solve_ev = ev
                if out == "solution":
                    sol = ev["solution"]
                    if any(not t["scheduled"] for t in sol["tasks"].values()):
                        v.probe("has:unscheduled")
                continue
            if out == "skipped":
                continue
            path = ev.get("path")
            hit = path in faulty_paths if path else False
            if out == "exception":
                if hit or (op in ("to_json_file", "export_smt2") and any(f["path"].endswith(ev.get("args", {}).get("path", "\0")) for f in fired)):
                    v.probe("io_fault_raised")
                else:
                    v.violate("C16", f"export_exception/{op}", [ev["exc"].split(":")[0]], ev["exc"], ev["seq"], "A")
                continue
            if hit:
                # an injected fault fired on this op's file and the op did not raise: legal only
                # if it reported failure through a falsy return value (to_json_file)
                content = result["fs_files"].get(path, "")
                if op == "to_json_file" and "returned" in ev and not ev["returned"]:
                    v.probe("io_fault_reported_by_return_value")
                else:
                    v.violate("C16", "io_fault_reported_success", [op], {"path": path, "returned": ev.get("returned"), "len": len(content)}, ev["seq"], "A")
                continue
            exported += 1
            if op == "to_json" and sol is not None:
                self.check_json(v, json.loads(ev["value"]), sol, ev, "json")
                v.probe("json_checked")
            elif op == "to_json_file" and sol is not None:
                content = result["fs_files"].get(path)
                if not ev.get("returned"):
                    v.violate("C16", "json_file/returned_false", [], {"path": path}, ev["seq"], "A")
                try:
                    self.check_json(v, json.loads(content), sol, ev, "json_file")
                except (ValueError, TypeError):
                    v.violate("C16", "json_file/unparsable", [], {"path": path, "len": len(content or "")}, ev["seq"], "A")
                v.probe("json_file_checked")
            elif op == "to_df" and sol is not None:
                self.check_table(v, ev["value"]["columns"], ev["value"]["rows"], sol, ev, "df")
                v.probe("df_checked")
            elif op in ("to_csv", "to_csv_file") and sol is not None:
                sep = ev.get("args", {}).get("sep", ",")
                rows = list(csv.reader(io.StringIO(ev["value"]), delimiter=sep))
                self.check_table(v, rows[0], rows[1:], sol, ev, "csv" if op == "to_csv" else "csv_file", textual=True)
                v.probe("csv_checked" if op == "to_csv" else "csv_file_checked")
            elif op == "to_excel" and sol is not None:
                self.check_xlsx(v, ev["value"], sol, ev)
                v.probe("xlsx_checked")
            elif op == "export_smt2":
                v.probe("smt2_checked")
                if cfg.get("optimizer") == "optimize" and spec.get("objectives"):
                    v.probe("smt2_optimize")
            elif op == "roundtrip":
                self.check_roundtrip(v, ev)
        # files written without a fault must still be intact at the end
        # SMT-LIB: parses, sat iff the problem is, and its model is admitted (hence a model of the library's own system) and valid
        sp = result.get("smt2_parse")
        evx = next((e for e in events if e["client"] == "A3" and e["op"] == "solve"), None)
        smt_exports = [e for e in events if e["client"] == "A" and e["op"] == "export_smt2" and e.get("outcome") == "ok" and e.get("path") not in faulty_paths]
        if smt_exports and sp is not None:
            if not sp["ok"]:
                v.violate("C16", "smt2/parse", [], sp, smt_exports[-1]["seq"], "A")
            elif solve_ev is not None and solve_ev.get("outcome") in ("solution", "false") and not solve_ev.get("faults") and sp["verdict"] in ("sat", "unsat"):
                want = "sat" if solve_ev["outcome"] == "solution" else "unsat"
                # an export taken after find_another would carry blocking clauses; the script never does that
                if sp["verdict"] != want:
                    v.violate("C16", "smt2/sat", [cfg.get("optimizer", "incremental")] + (["debug"] if cfg.get("debug") else []), {"parsed": sp["verdict"], "solver": solve_ev["outcome"]}, smt_exports[-1]["seq"], "A")
        if evx is not None:
            for st in evx.get("steers") or []:
                if st.get("tag") == "smt2-model":
                    v.probe("smt2_model_pinned")
                    if not st.get("admitted") and st.get("why") != "unknown":
                        v.violate("C16", "smt2/model", [cfg.get("optimizer", "incremental")] + (["debug"] if cfg.get("debug") else []), {"pins": st.get("pins")}, evx["seq"], "A3")
            if evx.get("outcome") == "solution":
                f = self.evaluate_event(plan, result, evx)
                for it in f.items:
                    if it["prop"] in VALIDITY_PROPS:
                        v.violate("C16", f"smt2/model_invalid/{it['prop']}:{it['rule']}", it["kinds"], it["detail"], evx["seq"], "A3")
        if exported:
            v.key = [spec_kinds(spec), sorted(set(e["op"] for e in events if e["client"] == "A" and e.get("outcome") == "ok")), bool(fired)]
        return v

    # ---- comparisons ------------------------------------------------------------------------
    def check_json(self, v, doc, sol, ev, chan):
        def bad(field, detail):
            v.violate("C16", f"{chan}/{field}", [], detail, ev["seq"], "A")
        if doc.get("horizon") != sol["horizon"]:
            bad("horizon", [doc.get("horizon"), sol["horizon"]])
        if set(doc.get("tasks", {})) != set(sol["tasks"]):
            bad("tasks", [sorted(doc.get("tasks", {})), sorted(sol["tasks"])])
            return
        for name, t in sol["tasks"].items():
            d = doc["tasks"][name]
            for fld in ("start", "end", "duration", "scheduled", "optional", "assigned_resources", "release_date", "due_date", "priority", "work_amount"):
                if d.get(fld) != t.get(fld):
                    bad("task." + fld, [name, d.get(fld), t.get(fld)])
            for fld in ("start_time", "end_time"):
                if t.get(fld) is not None and not self.same_time(d.get(fld), t[fld]):
                    bad("task." + fld, [name, d.get(fld), t.get(fld)])
        if set(doc.get("resources", {})) != set(sol["resources"]):
            bad("resources", [sorted(doc.get("resources", {})), sorted(sol["resources"])])
        else:
            for name, r in sol["resources"].items():
                got = [list(a) for a in doc["resources"][name].get("assignments", [])]
                if got != [list(a) for a in r["assignments"]]:
                    bad("resource.assignments", [name, got, r["assignments"]])
        if set(doc.get("buffers", {})) != set(sol["buffers"]):
            bad("buffers", [sorted(doc.get("buffers", {})), sorted(sol["buffers"])])
        else:
            for name, b in sol["buffers"].items():
                d = doc["buffers"][name]
                if d.get("level") != b["level"] or d.get("level_change_times") != b["level_change_times"]:
                    bad("buffer.levels", [name, d, b])
        if doc.get("indicators") != sol["indicators"]:
            bad("indicators", [doc.get("indicators"), sol["indicators"]])

    @staticmethod
    def same_time(exported, reported):
        """exported: pydantic JSON (ISO-8601 datetime, or ISO-8601 duration when the problem
        has a time step but no start time); reported: isoformat() / str(timedelta)"""
        import re
        from datetime import datetime, timedelta
        if exported is None:
            return False

        def to_seconds(x):
            x = str(x)
            m = re.fullmatch(r"(-)?P(?:(\d+)Y)?(?:(\d+)D)?(?:T(?:(\d+)H)?(?:(\d+)M)?(?:(\d+(?:\.\d+)?)S)?)?", x)
            if m:
                sign, yy, dd, hh, mm, ss = m.groups()   # pydantic writes 365-day "years"
                tot = (int(yy or 0) * 365 + int(dd or 0)) * 86400 + int(hh or 0) * 3600 + int(mm or 0) * 60 + float(ss or 0)
                return -tot if sign else tot
            m = re.fullmatch(r"(?:(-?\d+) days?, )?(\d+):(\d\d):(\d\d(?:\.\d+)?)", x)
            if m:
                dd, hh, mm, ss = m.groups()
                return int(dd or 0) * 86400 + int(hh) * 3600 + int(mm) * 60 + float(ss)
            try:
                return datetime.fromisoformat(x.replace("Z", "+00:00")).replace(tzinfo=None).timestamp()
            except ValueError:
                return x
        return to_seconds(exported) == to_seconds(reported)

    def check_table(self, v, columns, rows, sol, ev, chan, textual=False):
        def bad(field, detail):
            v.violate("C16", f"{chan}/{field}", [], detail, ev["seq"], "A")
        want_cols = ["Task name", "Allocated Resources", "Start", "End", "Duration", "Scheduled"]
        idx = {}
        for c in want_cols:
            if c not in columns:
                bad("column_missing", c)
                return
            idx[c] = list(columns).index(c)
        if len(rows) != len(sol["tasks"]):
            bad("row_count", [len(rows), len(sol["tasks"])])
            return
        byname = {str(r[idx["Task name"]]): r for r in rows}
        if set(byname) != set(sol["tasks"]):
            bad("task_names", [sorted(byname), sorted(sol["tasks"])])
            return
        for name, t in sol["tasks"].items():
            r = byname[name]
            for col, fld in (("Start", "start"), ("End", "end"), ("Duration", "duration")):
                got = r[idx[col]]
                if (int(got) if textual else got) != t[fld]:
                    bad(col, [name, got, t[fld]])
            got = r[idx["Scheduled"]]
            if (str(got) == "True") != bool(t["scheduled"]):
                bad("Scheduled", [name, got, t["scheduled"]])
            got = r[idx["Allocated Resources"]]
            want = t["assigned_resources"]
            if textual:
                import ast
                try:
                    got = ast.literal_eval(got)
                except (ValueError, SyntaxError):
                    pass
            if list(got) != list(want):
                bad("Allocated Resources", [name, got, want])

    @staticmethod
    def _col(n):
        s = ""
        n += 1
        while n:
            n, r = divmod(n - 1, 26)
            s = chr(65 + r) + s
        return s

    def check_xlsx(self, v, book, sol, ev):
        def bad(field, detail):
            v.violate("C16", f"xlsx/{field}", [], detail, ev["seq"], "A")
        for sheet in ("GANTT Resource view", "GANTT Task view", "Indicators"):
            if sheet not in book:
                bad("sheet_missing", sheet)
                return
        res = book["GANTT Resource view"]["cells"]
        for i, (rname, r) in enumerate(sol["resources"].items()):
            if res.get(f"A{i+2}") != rname:
                bad("resource.name", [rname, res.get(f"A{i+2}")])
            for task, s, e in r["assignments"]:
                if s < 0 or e <= s or e > 16000:
                    continue  # zero-length items / beyond the sheet: one cell = one period, not representable
                cell = f"{self._col(s + 1)}{i+2}"
                if res.get(cell) != task:
                    other = res.get(cell)
                    zl = any(tk == other and ee == ss and ss == s for tk, ss, ee in r["assignments"])
                    conc = (not zl) and any(tk != task and ss < e and s < ee for tk, ss, ee in r["assignments"])
                    why = "(overwritten by a zero-length assignment)" if zl else "(concurrent tasks of a cumulative worker share one row)" if conc else ""
                    bad("resource.assignment" + why, [rname, task, s, e, cell, other])
                if e - s > 1:
                    want = f"{self._col(s + 1)}{i+2}:{self._col(e)}{i+2}"
                    if want not in book["GANTT Resource view"]["merged"]:
                        bad("resource.span", [rname, task, s, e, want])
        tv = book["GANTT Task view"]["cells"]
        for i, (tname, t) in enumerate(sol["tasks"].items()):
            if tv.get(f"A{i+2}") != tname:
                bad("task.name", [tname, tv.get(f"A{i+2}")])
            if not t["scheduled"] or t["start"] < 0 or t["end"] <= t["start"] or t["end"] > 16000:
                continue
            text = ",".join(t["assigned_resources"])
            cell = f"{self._col(t['start'] + 1)}{i+2}"
            got = tv.get(cell)
            if (got or "") != text:
                bad("task.bar", [tname, cell, got, text])
            if t["end"] - t["start"] > 1:
                want = f"{self._col(t['start'] + 1)}{i+2}:{self._col(t['end'])}{i+2}"
                if want not in book["GANTT Task view"]["merged"]:
                    bad("task.span", [tname, want])
        ind = book["Indicators"]["cells"]
        for i, (name, val) in enumerate(sol["indicators"].items()):
            if ind.get(f"A{i+2}") != name or ind.get(f"B{i+2}") != val:
                bad("indicator", [name, val, ind.get(f"A{i+2}"), ind.get(f"B{i+2}")])

    def check_roundtrip(self, v, ev):
        val = ev.get("value") or {}
        kind = ev["args"]["kind"]
        if kind == "task":
            v.probe("roundtrip_task_checked")
            b, a = val["before"], val["after"]
            for k in b:
                if b[k] != a.get(k):
                    v.violate("C16", "roundtrip/task", [b.get("type", "?"), k], {"before": b[k], "after": a.get(k)}, ev["seq"], "A")
            if val["type"] != b.get("type"):
                v.violate("C16", "roundtrip/task_type", [b.get("type", "?")], val["type"], ev["seq"], "A")
        else:
            v.probe("roundtrip_cost_checked")
            if val["before"] != val["after"] or val["json_before"] != val["json_after"]:
                v.violate("C16", "roundtrip/cost", [val["type"]], val, ev["seq"], "A")


CHECK = C16()
