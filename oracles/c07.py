"""C07 - optimisation returns a best schedule; early stops still return valid ones.

Clients per run (each builds its own problem object from the same spec):
  A  incremental optimiser under the full environment schedule (first-model steering,
     injected unknown, slow checks -> "max time" / extrapolated-time stops, max_iter,
     I/O errors inside save_intermediate_states)
  B  built-in optimiser (z3.Optimize), fault-free; single objective: any priority mode,
     several objectives: priority "weight" only (the only mode that targets the same sum)
  X  examiner: same spec, first engine check pinned to "objective strictly better than
     A's value" (must be refused) - asked only when A ran to completion
"""
import copy
import json

from ref import semantics as sem
from ref import enumerate as enum
from sim import gen
from sim.engine import keyed_rng
from sim.spec import spec_kinds
from .base import Check, Verdict, resolve_perturb, engine_nonoptimal

OBJECTIVES = ["MinimizeMakespan", "MinimizeFlowtime", "TasksStartLatest", "TasksStartEarliest", "Priorities", "MinimizeGreatestStartTime",
              "MaximizeResourceUtilization", "MinimizeResourceCost", "MaximizeIndicator", "MinimizeIndicator", "MaximizeIndicator", "MinimizeIndicator",
              "MinimizeFlowtimeSingleResource"]
SAFE_CONSTRAINTS = ["TaskStartAfter", "TaskEndBefore", "TaskPrecedence", "TasksStartSynced", "TasksEndSynced", "TasksDontOverlap",
                    "ResourceUnavailable", "OptionalTaskForceSchedule", "ForceScheduleNOptionalTasks"]
VALIDITY_PROPS = frozenset({"C01", "C02", "C03", "C04"})


def better_pin(world, cl, step, st):
    """examiner question: is there a schedule strictly better than client `of`'s value?"""
    src = world.clients[st["of"]]
    if not src.models or src.models[-1] is None or "OBJ" not in src.models[-1]:
        return None
    val = src.models[-1]["OBJ"]
    direction = st["direction"]
    return {"mode": "pin", "pins": {"OBJ": {"lt": val} if direction == "min" else {"gt": val}}, "tag": "better", "expect": "refuse", "value": val}


class C07(Check):
    pid = "C07"
    title = "optimisation"
    props = VALIDITY_PROPS
    quick_runs = 1200
    thorough_runs = 30000
    resolvers = {"perturb": resolve_perturb, "better": better_pin}
    nontrivial_rule = ("the incremental optimiser ran at least two iterations (or was cut short by an injected fault / limit) and the "
                       "examiner, the second optimiser or the incumbent monitor judged its result")
    expected_probes = ["exit:optimum", "exit:no_solution", "exit:unknown", "exit:max_iter", "exit:max_time", "exit:expected_time", "exit:bound",
                       "examiner_asked", "optimisers_compared", "reference_optimum_compared", "io_fault_in_dump", "intermediate_files_checked", "multi_objective"]

    def plan(self, run_seed, tier):
        rng = keyed_rng(run_seed, "plan")
        big = tier == "thorough"
        multi = rng.random() < 0.25
        prof = gen.profile(
            n_tasks=(1, 5 if big else 4), p_optional=0.2, p_zero=0.08, p_variable=0.35, p_release=0.2, p_due=0.1, p_priority=0.5,
            n_workers=(0, 3), p_select=0.35, p_cumulative=0.15, p_assign=0.75, p_dynamic=0.1, p_work=0.15, p_cost=0.6,
            p_horizon=0.8, slack=(0, 6), constraints=SAFE_CONSTRAINTS, n_constraints=(0, 2),
            indicators=["FromMathExpression", "FromMathExpression", "ResourceUtilization", "NumberTasksAssigned", "ResourceCost"], n_indicators=(1, 3),
            p_indicator_bounds=0.6,
            objectives=OBJECTIVES, n_objectives=(2, 3) if multi else (1, 1),
        )
        if multi and rng.random() < 0.3:
            # weighted-sum scenario: every objective is an indicator with declared two-sided bounds, so that the
            # sum itself has computable extreme values (where a shortcut on "the bound is reached" would sit)
            d = rng.choice(["MinimizeIndicator", "MaximizeIndicator"])
            prof = dict(prof, indicators=["FromMathExpression"], n_indicators=(2, 3), p_indicator_bounds=1.0, objectives=[d], n_objectives=(2, 3))
        if rng.random() < 0.2:
            # due-date scenario: the objective is one of the due-date indicators, whose optimum may be
            # zero or (maximum lateness) negative.  No optional tasks: what these indicators count for an
            # unscheduled task is C06's matter (known finding), not this property's.
            prof = dict(prof, p_optional=0.0, p_due=0.7, indicators=["Tardiness", "Earliness", "NumberOfTardyTasks", "MaximumLateness", "MaximumLateness"],
                        n_indicators=(1, 2), objectives=["MinimizeIndicator", "MinimizeIndicator", "MaximizeIndicator"], slack=(2, 8))
        spec = gen.gen_spec(keyed_rng(run_seed, "spec"), prof)
        if prof.get("p_indicator_bounds") == 1.0 and len(spec["objectives"]) > 1 and keyed_rng(run_seed, "negw").random() < 0.5:
            # weighted-sum scenario: one term out of two runs against the others
            o = spec["objectives"][-1]
            o["weight"] = -abs(o.get("weight", 1))
        if not spec["objectives"]:
            spec["objectives"] = [{"kind": "MinimizeMakespan"}]
        if multi:
            # weights only exist on indicator objectives
            pass
        direction = gen.objective_direction(spec["objectives"][0]["kind"])
        nobj = len(spec["objectives"])
        fault_free = rng.random() < 0.4
        cfgA = {}
        script = []
        stepA = {"client": "A", "op": "solve"}
        save_states = False
        plan = {"property": self.pid, "run_seed": run_seed, "sim_version": 1, "tier": tier, "fault_free": fault_free, "direction": direction}
        if not fault_free:
            env = []
            kinds = rng.sample(["steer", "unknown", "slow", "max_iter", "io", "bounds"], rng.randint(1, 3))
            if "max_iter" in kinds:
                cfgA["max_iter"] = rng.randint(1, 5)
            if "slow" in kinds:
                cfgA["max_time"] = rng.choice([1, 2, 5, 10])
                lat = rng.choice([0.1, 0.3, 0.6, 1.2, 3.0])
                n = rng.randint(2, 12)
                mode = rng.choice(["flat", "growing"])
                env = [{"latency": round(lat * ((i + 1) if mode == "growing" else 1), 3)} for i in range(n)]
                if rng.random() < 0.25:
                    # the clock steps back (NTP correction) during one check: a negative reading difference
                    env[rng.randrange(len(env))]["latency"] = -rng.choice([0.5, 2.0, 30.0])
            if "unknown" in kinds:
                at = rng.choice([0, 1, 1, 2, 3, 5])
                while len(env) <= at:
                    env.append({})
                env[at] = dict(env[at], verdict="unknown", reason=rng.choice(["canceled", "timeout", "incomplete"]))
            if "steer" in kinds:
                # make the first incumbents bad: steer the first checks away from the optimum
                bias = "high" if direction == "min" else "low"
                for i in range(rng.randint(1, 3)):
                    while len(env) <= i:
                        env.append({})
                    if "verdict" not in env[i]:
                        env[i] = dict(env[i], steer={"mode": "greedy", "bias": bias, "key": 50 + i, "groups": ["time", "flag", "busy", "horizon"]})
            if "io" in kinds:
                save_states = True
                cfgA["save_intermediate_states"] = True
                if rng.random() < 0.5:
                    cfgA["save_intermediate_states_path"] = "/simfs/states"
                plan["fs_faults"] = [{"at": rng.choice(["open", "write", "close"]), "nth_file": rng.randint(1, 4), "nth_write": 1,
                                      "errno": rng.choice([28, 5, 13]), "how": rng.choice(["error", "short"])}]
            if env:
                stepA["env"] = env
        elif rng.random() < 0.3:
            cfgA["save_intermediate_states"] = True
        # an objective whose indicator declares bounds: let the engine's first model sit on
        # a bound - the far one (the loop must go on) or the near one (the "bound reached" exit)
        if nobj == 1 and spec["objectives"][0].get("indicator"):
            ind = next((i for i in spec["indicators"] if i["id"] == spec["objectives"][0]["indicator"]), None)
            if ind is not None and ind.get("bounds") and rng.random() < 0.7:
                lo, hi = ind["bounds"]
                far, near = (hi, lo) if direction == "min" else (lo, hi)
                env = stepA.setdefault("env", [])
                if not env:
                    env.append({})
                if "verdict" not in env[0]:
                    env[0] = dict(env[0], steer={"mode": "pin", "pins": {"OBJ": far if rng.random() < 0.7 else near}, "tag": "bound"})
                plan["fault_free"] = False
        if nobj > 1:
            inds = [next((i for i in spec["indicators"] if i["id"] == o.get("indicator")), None) for o in spec["objectives"]]
            env0 = (stepA.get("env") or [{}])[0]
            if all(i is not None and i.get("bounds") and None not in i["bounds"] for i in inds) and "verdict" not in env0 and rng.random() < 0.8:
                # first incumbent of the weighted sum on sum(w*lo) / sum(w*hi) (mostly the one that looks like
                # "the bound in the direction of the optimisation") or on 0
                ws = [o.get("weight", 1) for o in spec["objectives"]]
                slo, shi = (sum(w * i["bounds"][k] for w, i in zip(ws, inds)) for k in (0, 1))
                first = slo if direction == "min" else shi
                env = stepA.setdefault("env", [])
                if not env:
                    env.append({})
                env[0] = dict(env[0], steer={"mode": "pin", "pins": {"OBJ": rng.choice([first, first, first, slo, shi, 0])}, "tag": "sum-bound"})
                plan["fault_free"] = False
        if nobj == 1 and "env" not in stepA and rng.random() < 0.25:
            # a first model whose objective value is exactly 0 - where hand-written bounds and guards tend to sit
            stepA["env"] = [{"steer": {"mode": "pin", "pins": {"OBJ": 0}, "tag": "zero"}}]
            plan["fault_free"] = False
        script.append(stepA)
        # second optimiser
        cfgB = {"optimizer": "optimize"}
        if nobj > 1:
            cfgB["optimize_priority"] = "weight"
        else:
            cfgB["optimize_priority"] = rng.choice(["pareto", "lex", "box", "weight"])
        nonlinear = gen.has_nonlinear(spec)
        clients = [{"id": "A", "spec": spec, "config": cfgA}]
        if not nonlinear:
            clients.append({"id": "B", "spec": "=A", "config": cfgB})
            script.append({"client": "B", "op": "solve"})
        clients.append({"id": "X", "spec": "=A", "config": {"max_iter": 1}})
        script.append({"client": "X", "op": "solve", "only_if": {"client": "A", "when": "solution"},
                       "env": [{"steer": {"mode": "better", "of": "A", "direction": direction}}]})
        plan["clients"] = clients
        plan["script"] = script
        return plan

    # ---- judge ----------------------------------------------------------------------------
    def judge(self, plan, result):
        v = Verdict()
        if result.get("build_rejected"):
            v.probe("build_rejected")
            return v
        spec = result["clients"]["A"]["spec"]
        cfgA = result["clients"]["A"]["config"]
        direction = plan.get("direction") or gen.objective_direction(spec["objectives"][0]["kind"])
        nobj = len(spec["objectives"])
        if nobj > 1:
            v.probe("multi_objective")
            if any(o.get("weight", 1) < 0 for o in spec["objectives"]):
                v.probe("negative_weight")
        evA = next((e for e in result["events"] if e["client"] == "A" and e["op"] == "solve"), None)
        evB = next((e for e in result["events"] if e["client"] == "B" and e["op"] == "solve"), None)
        evX = next((e for e in result["events"] if e["client"] == "X" and e["op"] == "solve"), None)
        if evA is None:
            return v
        kinds = ["multi"] if nobj > 1 else ["Objective" + spec["objectives"][0]["kind"]]
        better = (lambda a, b: a < b) if direction == "min" else (lambda a, b: a > b)
        for fk in evA.get("faults", []):
            v.probe("fault:" + fk)
        exits = evA.get("prints", [])
        exit_tag = None
        for tag in ("optimum", "bound", "max_time", "expected_time", "max_iter", "no_solution"):
            if tag in exits:
                exit_tag = tag
        if exit_tag is None and "unknown_msg" in exits:
            exit_tag = "unknown"
        v.probe("exit:" + str(exit_tag))
        out = evA.get("outcome")
        # ---- incumbents seen at the seam ----
        incumbents = [t["model"].get("OBJ") for t in evA.get("trace", []) if t.get("e") == "check" and t.get("verdict") == "sat" and "model" in t]
        incumbents = [x for x in incumbents if x is not None]
        cut_short = bool(evA.get("faults")) or exit_tag in ("max_time", "expected_time", "max_iter", "unknown") or \
            any(f in ("unknown", "virtual-timeout", "engine-gave-up") for f in evA.get("faults", []))
        io_fired = result.get("fs_fired", [])
        if io_fired:
            v.probe("io_fault_in_dump")
        if out == "exception":
            if io_fired and ("OSError" in evA["exc"] or "Error" in evA["exc"].split(":")[0]):
                v.probe("io_error_propagated")
            else:
                v.violate("C07", f"exception/{exit_tag}", kinds + [evA["exc"].split(":")[0]], evA["exc"], evA["seq"], "A")
        elif out == "no_progress":
            v.violate("C07", "no_progress", kinds, evA.get("exc"), evA["seq"], "A")
        elif out == "slow_convergence":
            v.probe("step_cap_on_monotone_descent(inconclusive)")
        elif out == "false":
            # legal if infeasible, or cut short before the first model
            if incumbents:
                v.violate("C07", "false_although_incumbent_found", kinds, {"incumbents": incumbents[:5], "exit": exit_tag}, evA["seq"], "A")
            elif not cut_short and evB is not None and evB.get("outcome") == "solution" and not evB.get("faults"):
                v.violate("C07", "optimisers_disagree/feasibility", kinds, {"A": "false", "B": "solution"}, evA["seq"], "A")
        elif out == "solution":
            f = self.evaluate_event(plan, result, evA)
            v.absorb_unspecified(f)
            v.rules_checked += f.checked
            for it in f.items:
                if it["prop"] in VALIDITY_PROPS:
                    rule = "early_stop_invalid" if cut_short else "result_invalid"
                    v.violate("C07", f"{rule}/{it['prop']}:{it['rule']}", it["kinds"], it["detail"], evA["seq"], "A")
            val = (evA.get("model") or {}).get("OBJ")
            # incumbents strictly improve
            for a, b in zip(incumbents, incumbents[1:]):
                if not better(b, a):
                    v.violate("C07", "incumbent_not_improving", kinds, {"incumbents": incumbents[:8]}, evA["seq"], "A")
                    break
            if incumbents and val is not None:
                if val != incumbents[-1]:
                    v.violate("C07", "returned_is_not_last_incumbent", kinds, {"returned": val, "incumbents": incumbents[:8]}, evA["seq"], "A")
                if any(better(x, val) for x in incumbents):
                    v.violate("C07", "early_stop_worse_than_incumbent", kinds, {"returned": val, "incumbents": incumbents[:8]}, evA["seq"], "A")
            # independent optimum: exhaustive enumeration by the reference model (tiny specs)
            if not cut_short and val is not None:
                ro = enum.reference_optimum(spec, limit=2000 if plan.get("tier") != "thorough" else 6000)
                if ro is not None:
                    v.probe("reference_optimum_compared")
                    if ro[1] > 0 and ro[0] != val:
                        v.violate("C07", f"not_the_reference_optimum/{exit_tag}", kinds, {"returned": val, "reference": ro[0], "n_valid": ro[1]}, evA["seq"], "A")
            # the reported indicator value of the objective equals the engine's
            if not cut_short and val is not None:
                if evX is not None and evX.get("outcome") in ("solution", "false"):
                    st = (evX.get("steers") or [{}])[0]
                    if st.get("tag") == "better":
                        v.probe("examiner_asked")
                        if st.get("admitted"):
                            xval = (evX.get("model") or {}).get("OBJ")
                            # the better schedule must itself be valid by the reference model
                            fx = self.evaluate_event(plan, result, evX) if evX.get("outcome") == "solution" else None
                            if fx is not None and not [i for i in fx.items if i["prop"] in VALIDITY_PROPS]:
                                v.violate("C07", f"not_optimal(better_exists)/{exit_tag}", kinds, {"returned": val, "better": xval}, evA["seq"], "A")
                        elif st.get("why") == "unknown":
                            v.probe("examiner_inconclusive")
                nonopt = engine_nonoptimal(evB) if evB is not None else None
                if nonopt is not None:
                    # z3.Optimize handed out a model that is not optimal for its own assertion set
                    prB = result["clients"]["B"]["config"].get("optimize_priority")
                    v.violate("C07", f"engine_nonoptimal/{prB}", ["z3.Optimize"], nonopt, evB["seq"], "B")
                elif evB is not None and evB.get("outcome") == "solution" and not evB.get("faults"):
                    prB = result["clients"]["B"]["config"].get("optimize_priority")
                    bval = (evB.get("model") or {}).get("OBJ")
                    fb = self.evaluate_event(plan, result, evB)
                    for it in fb.items:
                        if it["prop"] in VALIDITY_PROPS:
                            v.violate("C07", f"optimize_result_invalid/{it['prop']}:{it['rule']}", it["kinds"], it["detail"], evB["seq"], "B")
                    if bval is not None and (nobj == 1 or prB == "weight"):
                        v.probe("optimisers_compared")
                        if bval != val:
                            v.violate("C07", f"optimisers_disagree/{prB}", kinds, {"incremental": val, "optimize": bval, "exit": exit_tag}, evA["seq"], "A")
                elif evB is not None and evB.get("outcome") == "false" and not evB.get("faults"):
                    v.violate("C07", "optimisers_disagree/feasibility", kinds, {"A": "solution", "B": "false"}, evA["seq"], "A")
                elif evB is not None and evB.get("outcome") == "exception":
                    v.violate("C07", "optimize_exception", kinds + [evB["exc"].split(":")[0]], evB["exc"], evB["seq"], "B")
        # ---- intermediate state files ----
        if cfgA.get("save_intermediate_states"):
            self.judge_files(plan, result, v, spec, evA, direction, kinds, better)
        if out in ("solution", "false") and (len(incumbents) >= 2 or cut_short):
            v.key = [spec_kinds(spec), exit_tag, sorted(set(evA.get("faults", []))), out, len(incumbents) >= 2,
                     bool(io_fired), evB.get("outcome") if evB else None]
        return v

    def judge_files(self, plan, result, v, spec, evA, direction, kinds, better):
        files = result.get("fs_files", {})
        fired = result.get("fs_fired", [])
        faulty = set(f["path"] for f in fired)
        names = [p for p in files if "_IntermediateSolution_Value_" in p]
        if not names:
            return
        v.probe("intermediate_files_checked", len(names))
        order = [e[1] for e in result.get("fs_log", []) if e[0] == "open-w"] if result.get("fs_log") else names
        vals = []
        for p in order:
            if p not in files or "_IntermediateSolution_Value_" not in p:
                continue
            content = files[p]
            try:
                val = int(p.rsplit("_", 1)[1].split(".")[0])
            except ValueError:
                continue
            if p in faulty:
                continue  # the op raised for this file; its content is allowed to be partial
            try:
                doc = json.loads(content)
            except ValueError:
                v.violate("C07", "intermediate_file/torn", kinds, {"path": p, "len": len(content)}, evA["seq"], "A")
                continue
            vals.append(val)
            # it is a schedule of this problem: task names match and timing is self-consistent
            tasks = doc.get("tasks", {})
            if set(tasks) != set(t["id"] for t in spec["tasks"]):
                v.violate("C07", "intermediate_file/invalid", kinds, {"path": p, "tasks": sorted(tasks)}, evA["seq"], "A")
                continue
            for name, t in tasks.items():
                if t.get("scheduled") and t["end"] - t["start"] != t["duration"]:
                    v.violate("C07", "intermediate_file/invalid", kinds, {"path": p, "task": name}, evA["seq"], "A")
        for a, b in zip(vals, vals[1:]):
            if not better(b, a):
                v.violate("C07", "intermediate_file/order", kinds, {"values": vals}, evA["seq"], "A")
                break


CHECK = C07()
