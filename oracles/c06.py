"""C06 - optional tasks: scheduled like mandatory ones, or inert when not scheduled.

(i)  a scheduled optional task obeys every C01-C04 rule            (evaluator)
(ii) an unscheduled one holds no worker, changes no buffer, counts in no indicator
(iii) twin clients: P and P minus U (the unscheduled tasks deleted) admit each other's
      schedules - a schedule P returned with U unscheduled is pinned on P\\U, and a schedule
      P\\U returned, extended with "U unscheduled", is pinned on a fresh P (only when the
      reference model says the combined candidate is valid for every element of P)
(iv) the rules that force / forbid / couple / condition / count optional tasks hold
"""
import copy

from ref import enumerate as enum
from ref import semantics as sem
from sim import gen, shrink
from sim.engine import keyed_rng, HarnessError
from sim.spec import spec_kinds
from .base import Check, Verdict, resolve_perturb, decision_pins

VALIDITY_PROPS = frozenset({"C01", "C02", "C03", "C04", "C06"})


def unscheduled_of(sol):
    return sorted(n for n, t in sol["tasks"].items() if not t["scheduled"])


def minus_unscheduled(world, step):
    src = world.clients[step["args"]["of"]]
    if not src.solutions:
        raise HarnessError("minus_unscheduled: source has no solution")
    spec = copy.deepcopy(src.spec)
    U = unscheduled_of(src.solutions[-1])
    if not U:
        return None
    for tid in U:
        s2 = shrink.drop_task(spec, tid)
        if s2 is None:
            return None  # nothing would remain
        spec = s2
    spec = shrink.drop_resource_if_unassigned(spec)
    spec["objectives"] = []
    spec["name"] = "twin"
    return spec


def _classify_solution_on(spec, sol, model):
    c = sem.cand_from_solution(sol, model)
    st, f = enum.classify(spec, c)
    return st


def pins_restricted(world, cl, step, st):
    """P -> P\\U: the schedule of the remaining tasks, as returned by the source client"""
    src = world.clients[st["of"]]
    if not src.solutions or src.models[-1] is None:
        return None
    sol = copy.deepcopy(src.solutions[-1])
    U = set(unscheduled_of(sol))
    if not U:
        return None
    for u in U:
        sol["tasks"].pop(u, None)
    # indicators / buffers of the restricted problem are re-derived by classify
    sol["indicators"] = {}
    sol["buffers"] = {k: v for k, v in sol["buffers"].items() if any(b["id"] == k for b in cl.spec.get("buffers", []))}
    model = {k: v for k, v in src.models[-1].items() if not any(k.endswith(":" + u) for u in U)}
    if _classify_solution_on(cl.spec, sol, model) != sem.V:
        return None
    pins = decision_pins(src.handles, model)
    return {"mode": "pin", "pins": pins, "expect": "admit", "tag": "twin:P->P-U"}


def pins_extended(world, cl, step, st):
    """P\\U -> P: a schedule returned by the twin, extended with 'U unscheduled'"""
    twin = world.clients[st["of"]]
    src = world.clients[st["base"]]
    if not twin.solutions or twin.models[-1] is None or not src.solutions:
        return None
    U = unscheduled_of(src.solutions[-1])
    if not U:
        return None
    sol = copy.deepcopy(twin.solutions[-1])
    num = {t["id"]: i + 1 for i, t in enumerate(cl.spec["tasks"])}
    for u in U:
        sol["tasks"][u] = {"start": -num[u], "end": -num[u], "duration": 0, "scheduled": False, "optional": True, "assigned_resources": []}
    sol["indicators"] = {}
    model = dict(twin.models[-1])
    for u in U:
        model[f"x:{u}"] = False
    # unit / selection information of P-only elements is not in the twin's model: classify abstains then
    if _classify_solution_on(cl.spec, sol, None) != sem.V:
        return None
    pins = decision_pins(twin.handles, twin.models[-1])
    for u in U:
        pins[f"x:{u}"] = False
    return {"mode": "pin", "pins": pins, "expect": "admit", "tag": "twin:P-U->P"}


class C06(Check):
    pid = "C06"
    title = "optional tasks"
    props = VALIDITY_PROPS
    quick_runs = 1500
    thorough_runs = 40000
    resolvers = {"perturb": resolve_perturb, "minus_unscheduled": minus_unscheduled, "restricted": pins_restricted, "extended": pins_extended}
    nontrivial_rule = "a schedule with at least one unscheduled optional task was returned and inertness / twin admission / optional rules were judged"
    expected_probes = ["unscheduled_seen", "candidate_admitted", "twin:P->P-U:admitted", "twin:P-U->P:admitted", "has:buffer", "has:work", "has:release", "has:tardiness",
                       "rule:OptionalTaskForceSchedule", "rule:OptionalTaskConditionSchedule", "rule:OptionalTasksDependency", "rule:ForceScheduleNOptionalTasks"]

    def plan(self, run_seed, tier):
        rng = keyed_rng(run_seed, "plan")
        big = tier == "thorough"
        kinds = gen.OPTIONAL_RULE_KINDS + gen.OPTIONAL_RULE_KINDS + ["TaskPrecedence", "TasksStartSynced", "TasksDontOverlap", "TaskStartAfter", "TaskEndBefore",
                                                                    "TasksContiguous", "WorkLoad", "ResourceUnavailable",
                                                                    "ResourcePeriodicallyUnavailable", "ResourceTasksDistance", "ResourceNonDelay"]
        prof = gen.profile(
            n_tasks=(2, 5 if big else 4), p_optional=0.6, p_zero=0.12, p_variable=0.3, p_release=0.3, p_due=0.2, n_workers=(0, 3), p_select=0.4,
            p_cumulative=0.15, p_assign=0.7, p_dynamic=0.15, p_delayed=0.15, p_work=0.3, p_horizon=0.8, slack=(0, 5),
            constraints=kinds, n_constraints=(0, 3), n_buffers=(0, 1) if rng.random() < 0.35 else (0, 0),
            indicators=["Tardiness", "Earliness", "NumberOfTardyTasks", "MaximumLateness", "ResourceUtilization", "NumberTasksAssigned", "ResourceCost"] if rng.random() < 0.4 else [],
            n_indicators=(1, 2), objectives=["MinimizeFlowtime", "Priorities", "TasksStartEarliest", "MinimizeMakespan"] if rng.random() < 0.2 else [], n_objectives=(1, 1),
        )
        if rng.random() < 0.12:
            prof = gen.profile(**gen.FOCUS["crowded-placeholders"])
        spec = gen.gen_spec(keyed_rng(run_seed, "spec"), prof)
        if not any(t.get("optional") for t in spec["tasks"]):
            spec["tasks"][0]["optional"] = True
        cfg = {}
        if spec.get("objectives") and rng.random() < 0.3:
            cfg["optimizer"] = "optimize"
        cfg = self.safe_config(cfg, spec)
        plan = {"property": self.pid, "run_seed": run_seed, "sim_version": 1, "tier": tier, "fault_free": False,
                "clients": [{"id": "A", "spec": spec, "config": cfg}, {"id": "D", "dynamic": True, "spec": None}, {"id": "A2", "spec": "=A", "config": {}}]}
        # A: drive the scheduled flags to a random subset
        st = {"mode": "greedy", "key": 1, "groups": ["flag", "time", "busy"], "p_true": rng.choice([0.2, 0.5, 0.5, 0.8])}
        script = [{"client": "A", "op": "solve", "default": {"steer": st} if rng.random() < 0.85 else {}}]
        for j in range(rng.choice([0, 1, 2])):
            if not spec.get("objectives"):
                script.append({"client": "A", "op": "find_another", "if_model": True, "default": {"steer": self.steer(rng, 20 + j, later=True) or st}})
        # twin P\U, asked to admit A's schedule; then solves on its own (steered) and A2 is asked to admit the extension
        script.append({"client": "D", "op": "examine", "only_if": {"client": "A", "when": "solution"},
                       "args": {"derive": "minus_unscheduled", "of": "A", "config": {}}, "env": [{"steer": {"mode": "restricted", "of": "A"}}]})
        script.append({"client": "D", "op": "solve", "only_if": {"client": "D", "when": "solution"},
                       "default": {"steer": {"mode": "greedy", "key": 77, "bias": rng.choice([None, "high", "edge"])}}})
        script.append({"client": "A2", "op": "solve", "only_if": {"client": "D", "when": "solution"},
                       "env": [{"steer": {"mode": "extended", "of": "D", "base": "A"}}]})
        # completeness of the optional-task rules: reference-valid candidates, one per distinct
        # set of unscheduled tasks where possible, pinned on a fresh client
        K = 6 if tier == "quick" else 12
        allc = enum.enumerate_all(spec, limit=2500 if tier == "quick" else 8000) if spec.get("horizon") is not None and spec["horizon"] <= 9 else None
        cands = allc if allc is not None else enum.sample(spec, keyed_rng(run_seed, "sample"), tries=120, want=K)
        valid = [c for c in cands if c[0] == sem.V]
        crng = keyed_rng(run_seed, "choose")
        crng.shuffle(valid)
        by_subset = {}
        for c in valid:
            key = tuple(sorted(t for t, x in c[1].tasks.items() if not x.x))
            by_subset.setdefault(key, c)
        chosen = list(by_subset.values())[:K]
        if chosen:
            plan["clients"].append({"id": "A4", "spec": "=A", "config": {}})
            for st, c, sels, dyn in chosen:
                pins = enum.cand_pins(spec, c, sels, dyn)
                script.append({"client": "A4", "op": "solve", "env": [{"steer": {"mode": "pin", "pins": pins, "expect": "admit", "tag": "valid-candidate"}}]})
        plan["script"] = script
        return plan

    def spec_of(self, plan, result, cid):
        return result["clients"][cid]["spec"]

    def judge(self, plan, result):
        v = Verdict()
        if result.get("build_rejected"):
            v.probe("build_rejected")
            return v
        spec = result["clients"]["A"]["spec"]
        if spec.get("buffers"):
            v.probe("has:buffer")
        if any(t.get("work") for t in spec["tasks"] if t.get("optional")):
            v.probe("has:work")
        if any(t.get("release") for t in spec["tasks"] if t.get("optional")):
            v.probe("has:release")
        if any(i["kind"] in ("Tardiness", "Earliness", "NumberOfTardyTasks", "MaximumLateness") for i in spec.get("indicators", [])):
            v.probe("has:tardiness")
        for c in spec.get("constraints", []):
            if c["kind"] in gen.OPTIONAL_RULE_KINDS:
                v.probe("rule:" + c["kind"])
        unsched_seen = False
        for ev in result["events"]:
            out = ev.get("outcome")
            if out == "exception" and ev["client"] in ("A", "A2", "D"):
                v.violate("C06", f"exception/{ev['client']}:{ev['op']}", [ev["exc"].split(":")[0]], ev["exc"], ev["seq"], ev["client"])
                continue
            if out != "solution":
                # twin expectations on a refused pin still have to be read
                pass
            for st in ev.get("steers") or []:
                tag = st.get("tag", "")
                if tag == "valid-candidate":
                    if st.get("admitted"):
                        v.probe("candidate_admitted")
                    elif st.get("why") != "unknown":
                        pins = st.get("pins") or {}
                        rebuilt = enum.cand_from_pins(spec, pins)
                        if rebuilt is not None and enum.classify(spec, rebuilt[0])[0] == sem.V:
                            from .c05 import CHECK as C05CHECK
                            culprits = C05CHECK.culprits(plan, spec, pins)
                            unsched = sorted(k[2:] for k, val in pins.items() if k.startswith("x:") and val is False)
                            # only what concerns optional tasks belongs to this property
                            if unsched or any(k.startswith(("Optional", "ForceScheduleN", "task.optional")) for k in culprits):
                                v.violate("C06", "lost_schedule_with_unscheduled", culprits, {"pins": pins, "unscheduled": unsched}, ev["seq"], ev["client"])
                            else:
                                s2 = "C05/lost_schedule/" + "+".join(culprits)
                                v.notes[s2] = v.notes.get(s2, 0) + 1
                    continue
                if tag.startswith("twin:") and st.get("expect") == "admit":
                    if st.get("admitted"):
                        v.probe(tag + ":admitted")
                    elif st.get("why") == "unknown":
                        v.probe(tag + ":inconclusive")
                    else:
                        from .c05 import CHECK as C05CHECK
                        on_spec = result["clients"][ev["client"]]["spec"]
                        kinds = C05CHECK.culprits(plan, on_spec, st.get("pins") or {})
                        v.violate("C06", "twin_lost(" + tag[5:] + ")", kinds, {"unscheduled": self.U_of(result), "pins": st.get("pins")}, ev["seq"], ev["client"])
            if out != "solution":
                continue
            if ev["client"] in ("A", "A2"):
                f = self.evaluate_event(plan, result, ev)
                v.absorb_unspecified(f)
                v.rules_checked += f.checked
                opt = set(t["id"] for t in spec["tasks"] if t.get("optional"))
                for it in f.items:
                    if it["prop"] == "C06":
                        v.violate("C06", it["rule"], it["kinds"], it["detail"], ev["seq"], ev["client"])
                    elif it["prop"] in ("C01", "C02", "C03", "C04") and any(k.startswith("opt-") or k == "optional" for k in it["kinds"]):
                        v.violate("C06", f"scheduled_rule/{it['prop']}:{it['rule']}", it["kinds"], it["detail"], ev["seq"], ev["client"])
                    else:
                        s = f"{it['prop']}/{it['rule']}"
                        v.notes[s] = v.notes.get(s, 0) + 1
                if any(not t["scheduled"] for t in ev["solution"]["tasks"].values()):
                    unsched_seen = True
        if unsched_seen:
            v.probe("unscheduled_seen")
            v.key = [spec_kinds(spec), self.U_of(result), [e.get("outcome") for e in result["events"]]]
        return v

    @staticmethod
    def U_of(result):
        for ev in result["events"]:
            if ev["client"] == "A" and ev.get("outcome") == "solution":
                last = ev
        try:
            return unscheduled_of(last["solution"])
        except UnboundLocalError:
            return []

    @staticmethod
    def twin_kinds(spec, result):
        """what the unscheduled tasks carry (coarse, for the signature)"""
        U = set(C06.U_of(result))
        kinds = set()
        for t in spec["tasks"]:
            if t["id"] in U:
                for f in ("release", "due", "work"):
                    if t.get(f):
                        kinds.add("task." + f)
        for c in spec.get("constraints", []):
            from sim.spec import all_constraint_tasks
            if U & set(all_constraint_tasks(c)):
                kinds.add(c["kind"])
        for a in spec.get("assign", []):
            if a["task"] in U:
                kinds.add("assigned")
        return sorted(kinds) or ["plain"]


CHECK = C06()
