"""C14 - meaning is independent of names, declaration order and earlier problems.

One run = two executions inside one forked child:
  1. pristine: the plan without its prelude (clients A and B only) in the fresh process
  2. full: prelude problems are built and solved (own random configs), then A and B
A = the base spec P; B = pi(P): every user-visible name replaced through a random bijection
(alphabet without '_') and the declaration order permuted within each stage.
Compared: verdicts, optimal objective values, and cross-pins (a schedule one twin returned,
renamed, must be admitted by the other) - A vs B, and A(full) vs A(pristine).
"""
import copy
import json

from sim import gen
from sim.engine import keyed_rng
from sim.spec import spec_kinds, iter_constraints
from .base import Check, Verdict, resolve_perturb, decision_pins, engine_nonoptimal

SAFE_CONSTRAINTS = ["TaskStartAt", "TaskStartAfter", "TaskEndAt", "TaskEndBefore", "TaskPrecedence", "TasksStartSynced", "TasksEndSynced",
                    "TasksDontOverlap", "TasksContiguous", "UnorderedTaskGroup", "OrderedTaskGroup", "OptionalTaskForceSchedule",
                    "OptionalTasksDependency", "ForceScheduleNOptionalTasks", "WorkLoad", "ResourceUnavailable", "ResourceTasksDistance",
                    "ResourceNonDelay", "SameWorkers", "DistinctWorkers", "ResourcePeriodicallyUnavailable"]
OBJECTIVES = ["MinimizeMakespan", "MinimizeFlowtime", "TasksStartLatest", "TasksStartEarliest", "Priorities", "MinimizeGreatestStartTime",
              "MaximizeIndicator", "MinimizeIndicator"]
ID_KEYS = ("task", "before", "after", "t1", "t2", "resource", "s1", "s2", "buffer", "indicator")
LIST_KEYS = ("tasks", "workers", "resources", "constraints")
ALPHA = "ABCDEFGHJKLMNPQRSTUVWXYZ"


def _rename_expr(e, m):
    if isinstance(e, list):
        if e[0] in ("s", "e", "d", "x", "ind"):
            return [e[0], m.get(e[1], e[1])]
        return [e[0]] + [_rename_expr(x, m) for x in e[1:]]
    return e


def _rename_obj(o, m):
    o = dict(o)
    if "id" in o:
        o["id"] = m.get(o["id"], o["id"])
    for k in ID_KEYS:
        if isinstance(o.get(k), str):
            o[k] = m.get(o[k], o[k])
    for k in LIST_KEYS:
        if isinstance(o.get(k), list) and o[k] and isinstance(o[k][0], str):
            o[k] = [m.get(x, x) for x in o[k]]
    for k in ("expr", "cond"):
        if k in o:
            o[k] = _rename_expr(o[k], m)
    for k in ("arg", "a", "b"):
        if isinstance(o.get(k), dict):
            o[k] = _rename_obj(o[k], m) if "kind" in o[k] else {"expr": _rename_expr(o[k]["expr"], m)}
    for k in ("args", "then", "else"):
        if isinstance(o.get(k), list):
            o[k] = [(_rename_obj(x, m) if "kind" in x else {"expr": _rename_expr(x["expr"], m)}) for x in o[k]]
    return o


def rename_spec(spec, m, rng):
    s = copy.deepcopy(spec)
    for key in ("tasks", "workers", "cumulative", "selects", "buffers", "constraints", "indicators", "assign", "objectives"):
        s[key] = [_rename_obj(o, m) for o in s.get(key, [])]
    # permute the declaration order within each stage
    for key in ("tasks", "workers", "constraints", "indicators", "buffers", "assign"):
        rng.shuffle(s[key])
    # ForceApplyN refers to constraints by id and is built last by the builder: order-free
    s["name"] = "q"
    return s


def make_mapping(spec, rng):
    ids = []
    for key in ("tasks", "workers", "cumulative", "selects", "buffers", "indicators"):
        ids += [o["id"] for o in spec.get(key, [])]
    ids += [c["id"] for c in iter_constraints(spec)]
    names = set()
    m = {}
    for i in ids:
        while True:
            n = "".join(rng.choice(ALPHA) for _ in range(rng.randint(2, 4))) + str(rng.randint(0, 99))
            if n not in names:
                names.add(n)
                break
        m[i] = n
    return m


def evil_twin(spec, rng):
    """an earlier problem that reuses every name of the spec under test but contradicts it:
    reversed list orders, swapped precedences, shifted values.  Anything that leaks from one
    problem to the next *by name* (z3 constants are shared by name) or through a shared
    mutable container turns such a prelude into a changed verdict of the later problem."""
    s = copy.deepcopy(spec)
    s["name"] = "evil"
    s["objectives"] = []
    for c in s.get("constraints", []):
        if isinstance(c.get("tasks"), list):
            c["tasks"] = list(reversed(c["tasks"]))
        if c["kind"] == "TaskPrecedence":
            c["before"], c["after"] = c["after"], c["before"]
        if c["kind"] in ("TaskStartAt", "TaskEndAt", "TaskStartAfter", "TaskEndBefore"):
            c["value"] = c["value"] + rng.choice([1, 2, 3])
        if c["kind"] in ("TasksStartSynced", "TasksEndSynced") and rng.random() < 0.5:
            c["kind"] = "TasksDontOverlap"
    for t in s["tasks"]:
        if t.get("release") is not None:
            t["release"] += 1
    return s


def rename_handle(name, m):
    parts = name.split(":")
    out = [parts[0]]
    for p in parts[1:]:
        if "_CumulativeWorker_" in p:
            base, _, idx = p.partition("_CumulativeWorker_")
            out.append(m.get(base, base) + "_CumulativeWorker_" + idx)
        elif "@" in p:
            a, _, b = p.partition("@")
            out.append(m.get(a, a) + "@" + m.get(b, b))
        else:
            out.append(m.get(p, p))
    return ":".join(out)


def cross_pins(world, cl, step, st):
    src = world.clients[st["of"]]
    if not src.models or src.models[-1] is None:
        return None
    m = world.plan["mapping"]
    if st["direction"] == "B->A":
        m = {v: k for k, v in m.items()}
    pins = decision_pins(src.handles, src.models[-1])
    return {"mode": "pin", "pins": {rename_handle(k, m): v for k, v in pins.items()}, "expect": "admit", "tag": "cross:" + st["direction"]}


class C14(Check):
    pid = "C14"
    title = "names, order, earlier problems"
    props = frozenset({"C01", "C02", "C03", "C04"})
    quick_runs = 1200
    thorough_runs = 30000
    resolvers = {"perturb": resolve_perturb, "cross": cross_pins}
    nontrivial_rule = ("both twins (renamed + permuted) and both executions (pristine / after prelude) gave a definite verdict that was "
                       "compared, or a cross-pin was judged")
    expected_probes = ["verdict_compared:rename", "verdict_compared:prelude", "optimum_compared:rename", "optimum_compared:prelude",
                       "cross:A->B:admitted", "cross:B->A:admitted", "prelude_problems", "prelude_with_debug", "prelude_with_objective", "prelude_evil_twin"]

    def plan(self, run_seed, tier):
        rng = keyed_rng(run_seed, "plan")
        big = tier == "thorough"
        kinds = rng.sample(SAFE_CONSTRAINTS, 4)
        if rng.random() < 0.4:
            # list-valued, order-sensitive kinds: the ones most exposed to state shared between problems
            kinds = ["OrderedTaskGroup", "UnorderedTaskGroup", "TasksContiguous", "TaskPrecedence"]
        with_obj = rng.random() < 0.45
        crowded = rng.random() < 0.25
        if crowded:
            # many placeholders on few workers: optional tasks, selections and constraints that
            # order the busy intervals of a worker - sensitive to creation-order dependent values
            kinds = ["ResourceNonDelay", "ResourceTasksDistance", "ResourceUnavailable", "TaskPrecedence"]
        prof = gen.profile(
            n_tasks=(2, 5) if crowded else (1, 5 if big else 4), p_optional=0.6 if crowded else 0.25, p_zero=0.12, p_variable=0.3, p_release=0.15, p_due=0.15,
            n_workers=(2, 2) if crowded else (0, 3), p_select=0.9 if crowded else 0.45,
            p_cumulative=0.25, p_assign=0.95 if crowded else 0.7, p_dynamic=0.12, p_delayed=0.12, p_work=0.2, p_horizon=0.85, slack=(0, 5),
            constraints=kinds, n_constraints=(1, 3) if crowded else (0, 3), n_buffers=(0, 1) if rng.random() < 0.2 else (0, 0),
            indicators=["ResourceIdle", "FromMathExpression"] if crowded else ["FromMathExpression", "ResourceUtilization", "NumberTasksAssigned", "Tardiness"] if with_obj or rng.random() < 0.2 else [],
            n_indicators=(1, 2), objectives=OBJECTIVES if with_obj else [], n_objectives=(1, 1),
        )
        if rng.random() < 0.1:
            # constraints built by looping over the tasks of a worker: exposed to declaration-order dependence
            prof = gen.profile(**dict(gen.FOCUS["interrupted"], slack=(0, 4), objectives=OBJECTIVES if with_obj else [], n_objectives=(1, 1)))
        spec = gen.gen_spec(keyed_rng(run_seed, "spec"), prof)
        mapping = make_mapping(spec, keyed_rng(run_seed, "names"))
        twin = rename_spec(spec, mapping, keyed_rng(run_seed, "perm"))
        cfg = {}
        if spec.get("objectives") and rng.random() < 0.25:
            cfg["optimizer"] = "optimize"
            cfg["optimize_priority"] = "lex"
        cfg = self.safe_config(cfg, spec)
        clients = [{"id": "A", "spec": spec, "config": cfg}, {"id": "B", "spec": twin, "config": dict(cfg)},
                   {"id": "A2", "spec": "=A", "config": {}}, {"id": "B2", "spec": "=B", "config": {}}]
        prelude = []
        n_pre = rng.choice([0, 1, 1, 2, 3]) if not big else rng.choice([1, 2, 3, 4, 5])
        for k in range(n_pre):
            pprof = gen.profile(n_tasks=(1, 4), p_optional=0.4, p_zero=0.2, p_variable=0.4, n_workers=(0, 3), p_select=0.5, p_cumulative=0.3,
                                p_assign=0.8, p_horizon=0.7, constraints=gen.TASK_CONSTRAINT_KINDS + ["WorkLoad", "ResourceNonDelay", "ResourceTasksDistance"],
                                n_constraints=(0, 3), n_buffers=(0, 1), indicators=["ResourceIdle", "ResourceUtilization"], n_indicators=(0, 1),
                                objectives=["MinimizeMakespan", "MinimizeFlowtime", "TasksStartLatest"] if rng.random() < 0.5 else [], n_objectives=(1, 2))
            pspec = gen.gen_spec(keyed_rng(run_seed, "prelude", k), pprof)
            pcfg = {}
            if rng.random() < 0.3:
                pcfg["debug"] = True
            if rng.random() < 0.3:
                pcfg["random_values"] = True
            if rng.random() < 0.3:
                pcfg["max_time"] = rng.choice([1, 3, 50])
            if pspec.get("objectives") and rng.random() < 0.3 and not pcfg.get("debug"):
                pcfg["optimizer"] = "optimize"
                pcfg["optimize_priority"] = rng.choice(["lex", "box", "weight"])
            pcfg = self.safe_config(pcfg, pspec)
            if k == 0 and rng.random() < 0.5:
                pspec = evil_twin(spec, keyed_rng(run_seed, "evil"))
                pcfg = self.safe_config({k2: v for k2, v in pcfg.items() if k2 != "optimizer" and k2 != "optimize_priority"}, pspec)
            prelude.append({"id": f"P{k}", "spec": pspec, "config": pcfg, "prelude": True})
        script = []
        for p in prelude:
            script.append({"client": p["id"], "op": "solve", "prelude": True})
            if rng.random() < 0.3:
                script.append({"client": p["id"], "op": "find_another", "if_model": True, "prelude": True})
        order = ["A", "B"] if rng.random() < 0.5 else ["B", "A"]
        for cid in order:
            script.append({"client": cid, "op": "solve"})
        script.append({"client": "B2", "op": "solve", "only_if": {"client": "A", "when": "solution"}, "env": [{"steer": {"mode": "cross", "of": "A", "direction": "A->B"}}]})
        script.append({"client": "A2", "op": "solve", "only_if": {"client": "B", "when": "solution"}, "env": [{"steer": {"mode": "cross", "of": "B", "direction": "B->A"}}]})
        return {"property": self.pid, "run_seed": run_seed, "sim_version": 1, "tier": tier, "fault_free": True, "mapping": mapping,
                "clients": prelude + clients, "script": script}

    def rederive(self, plan):
        """after the minimiser changed client A's spec: rebuild the twin with the same mapping"""
        a = next(c for c in plan["clients"] if c["id"] == "A")
        b = next(c for c in plan["clients"] if c["id"] == "B")
        m = dict(plan["mapping"])
        missing = make_mapping(a["spec"], keyed_rng(plan["run_seed"], "names2"))
        for k, v in missing.items():
            m.setdefault(k, v)
        plan["mapping"] = m
        b["spec"] = rename_spec(a["spec"], m, keyed_rng(plan["run_seed"], "perm"))
        return plan

    def run_world(self, plan, run_plan):
        pristine = copy.deepcopy(plan)
        pristine["clients"] = [c for c in plan["clients"] if not c.get("prelude")]
        pristine["script"] = [s for s in plan["script"] if not s.get("prelude")]
        r0 = run_plan(pristine, self.resolvers)
        r1 = run_plan(plan, self.resolvers)
        r1["pristine"] = {"events": r0["events"], "digest": r0["digest"], "build_rejected": r0["build_rejected"]}
        r1["digest"] = r0["digest"][:32] + r1["digest"][:32]
        return r1

    # ---- judge ----------------------------------------------------------------------------
    @staticmethod
    def _solve_event(events, cid):
        return next((e for e in events if e["client"] == cid and e["op"] == "solve"), None)

    def judge(self, plan, result):
        v = Verdict()
        if result.get("build_rejected") or result["pristine"].get("build_rejected"):
            v.probe("build_rejected")
            a_rej = result.get("build_rejected") or ""
            # a spec accepted under one naming / order and rejected under the other is a finding
            pr = result["pristine"].get("build_rejected")
            if (a_rej.startswith("A:") or a_rej.startswith("B:")) and not (self._both_rejected(result)):
                pass
            return v
        spec = result["clients"]["A"]["spec"]
        n_pre = sum(1 for c in plan["clients"] if c.get("prelude"))
        if n_pre:
            v.probe("prelude_problems", n_pre)
            if any(c.get("prelude") and c["config"].get("debug") for c in plan["clients"]):
                v.probe("prelude_with_debug")
            if any(c.get("prelude") and c["spec"].get("objectives") for c in plan["clients"]):
                v.probe("prelude_with_objective")
            if any(c.get("prelude") and c["spec"].get("name") == "evil" for c in plan["clients"]):
                v.probe("prelude_evil_twin")
        kinds = sorted(set("Objective" + o["kind"] for o in spec.get("objectives", []))) or ["plain"]
        if any(t.get("optional") for t in spec["tasks"]):
            kinds.append("optional")
        judged = False

        def definite(ev):
            return ev is not None and ev.get("outcome") in ("solution", "false") and not ev.get("faults")

        def obj(ev):
            return (ev.get("model") or {}).get("OBJ") if ev.get("outcome") == "solution" else None

        full, pri = result["events"], result["pristine"]["events"]
        pairs = [("rename", self._solve_event(full, "A"), self._solve_event(full, "B")),
                 ("rename", self._solve_event(pri, "A"), self._solve_event(pri, "B"))]
        if n_pre:
            pairs.append(("prelude", self._solve_event(pri, "A"), self._solve_event(full, "A")))
            pairs.append(("prelude", self._solve_event(pri, "B"), self._solve_event(full, "B")))
        for what, e1, e2 in pairs:
            for e in (e1, e2):
                if e is not None and e.get("outcome") == "exception":
                    v.violate("C14", f"exception/{what}", kinds + [e["exc"].split(":")[0]], e["exc"], e["seq"], e["client"])
            if not (definite(e1) and definite(e2)):
                continue
            judged = True
            v.probe("verdict_compared:" + what)
            if e1["outcome"] != e2["outcome"]:
                v.violate("C14", f"verdict_differs/{what}", kinds, {e1["client"]: e1["outcome"], e2["client"] + "'": e2["outcome"]}, e2["seq"], e2["client"])
                continue
            if spec.get("objectives") and e1["outcome"] == "solution":
                bad_engine = [x for x in (engine_nonoptimal(e1), engine_nonoptimal(e2)) if x is not None]
                if bad_engine:
                    v.violate("C14", "engine_nonoptimal", ["z3.Optimize"], bad_engine[0], e2["seq"], e2["client"])
                    continue
                o1, o2 = obj(e1), obj(e2)
                if o1 is not None and o2 is not None:
                    v.probe("optimum_compared:" + what)
                    if o1 != o2:
                        v.violate("C14", f"optimum_differs/{what}", kinds, {"first": o1, "second": o2}, e2["seq"], e2["client"])
        # validity of what each returned (names-independent oracle) and cross pins
        for events, tag in ((full, "full"), (pri, "pristine")):
            for ev in events:
                if ev["client"] not in ("A", "B", "A2", "B2"):
                    continue
                if ev.get("outcome") == "solution":
                    f = self.evaluate_event(plan, result, ev)
                    v.absorb_unspecified(f)
                    v.rules_checked += f.checked
                    for it in f.items:
                        if it["prop"] in self.props:
                            s = f"{it['prop']}/{it['rule']}"
                            v.notes[s] = v.notes.get(s, 0) + 1
                for st in ev.get("steers") or []:
                    t = st.get("tag", "")
                    if t.startswith("cross:") and st.get("expect") == "admit":
                        judged = True
                        if st.get("admitted"):
                            v.probe(t + ":admitted")
                        elif st.get("why") == "unknown":
                            v.probe(t + ":inconclusive")
                        else:
                            from .c05 import CHECK as C05CHECK
                            on_spec = result["clients"][ev["client"]]["spec"]
                            culprits = C05CHECK.culprits(plan, on_spec, st.get("pins") or {})
                            v.violate("C14", f"cross_pin_refused/{t[6:]}/{tag}", culprits, {"pins": st.get("pins")}, ev["seq"], ev["client"])
        if judged:
            v.key = [spec_kinds(spec), n_pre, [e.get("outcome") for e in full if e["client"] in ("A", "B", "A2", "B2")]]
        return v

    @staticmethod
    def _both_rejected(result):
        return False


CHECK = C14()
