"""Seeded swarm generator of problem specs.  Pure function of (rng, profile)."""
from __future__ import annotations

import copy

DEFAULT_PROFILE = {
    "n_tasks": (1, 4),
    "p_optional": 0.25,
    "p_zero": 0.15,
    "p_variable": 0.3,
    "p_horizon": 0.7,
    "slack": (0, 5),
    "p_release": 0.2,
    "p_due": 0.2,
    "p_deadline": 0.6,       # a due date is a deadline with this probability (else it only feeds indicators)
    "p_priority": 0.3,
    "n_workers": (0, 3),
    "p_cumulative": 0.2,
    "p_select": 0.3,
    "p_assign": 0.7,
    "p_dynamic": 0.15,
    "p_delayed": 0.15,
    "p_work": 0.2,
    "p_cost": 0.3,
    "p_poly": 0.0,
    "n_buffers": (0, 0),
    "constraints": [],        # list of kinds to draw from
    "n_constraints": (0, 2),
    "p_optional_constraint": 0.0,
    "indicators": [],
    "n_indicators": (0, 0),
    "objectives": [],
    "n_objectives": (0, 0),
    "p_calendar": 0.0,
    "logic_depth": 2,
    "p_indicator_bounds": 0.0,
    "p_optional_operand": 0.0,
}

# focused scenario profiles (swarm style): overrides mixed into a check's profile on a fraction of
# its runs, so that rare conjunctions of features are reached within the quick budget
FOCUS = {
    # several interruptible (variable-duration) tasks queued on one worker whose work is interrupted
    "interrupted": dict(n_tasks=(2, 3), p_variable=0.85, p_zero=0.0, p_optional=0.15, n_workers=(1, 1), p_cumulative=0.0, p_select=0.0,
                        p_assign=1.0, p_dynamic=0.0, p_delayed=0.0, p_work=0.0, p_release=0.1, p_due=0.1, p_horizon=0.9, slack=(3, 8),
                        constraints=["ResourceInterrupted", "ResourceInterrupted", "ResourcePeriodicallyInterrupted"], n_constraints=(1, 2)),
    # few workers, every task assigned, only resource constraints: boundaries of workload / unavailability /
    # distance intervals against the busy intervals of a worker
    "resource-rules": dict(n_tasks=(2, 3), p_variable=0.3, p_zero=0.05, p_optional=0.2, n_workers=(1, 2), p_cumulative=0.1, p_select=0.25,
                           p_assign=1.0, p_dynamic=0.05, p_delayed=0.05, p_work=0.0, p_release=0.1, p_due=0.0, p_horizon=0.9, slack=(1, 5),
                           constraints=["WorkLoad", "WorkLoad", "ResourceUnavailable", "ResourcePeriodicallyUnavailable", "ResourceTasksDistance",
                                        "ResourceNonDelay"], n_constraints=(1, 2)),
    # release dates and mostly *soft* due dates under pressure on one worker: rules that reason about
    # "must be over before the other may start" have to look at the deadline flag
    "soft-due": dict(n_tasks=(2, 4), p_variable=0.2, p_zero=0.05, p_optional=0.15, n_workers=(1, 2), p_cumulative=0.15, p_select=0.3,
                     p_assign=1.0, p_dynamic=0.05, p_delayed=0.05, p_work=0.0, p_release=0.6, p_due=0.7, p_deadline=0.25, p_horizon=0.9, slack=(0, 3)),
    # many placeholders on two workers: optional tasks (unscheduled -> a point in the past), worker
    # selections (unselected -> another point in the past) and rules that order the intervals of a worker
    "crowded-placeholders": dict(n_tasks=(2, 5), p_optional=0.6, p_zero=0.1, p_variable=0.3, n_workers=(2, 2), p_cumulative=0.0, p_select=0.9,
                                 p_assign=0.95, p_dynamic=0.1, p_delayed=0.1, p_work=0.1, p_release=0.15, p_due=0.15, p_horizon=0.85, slack=(0, 5),
                                 constraints=["ResourceNonDelay", "ResourceTasksDistance", "ResourceUnavailable", "TaskPrecedence"], n_constraints=(1, 3),
                                 indicators=["ResourceIdle"], n_indicators=(0, 1)),
}

TASK_CONSTRAINT_KINDS = ["TaskStartAt", "TaskStartAfter", "TaskEndAt", "TaskEndBefore", "TaskPrecedence", "TasksStartSynced",
                         "TasksEndSynced", "TasksDontOverlap", "TasksContiguous", "UnorderedTaskGroup", "OrderedTaskGroup",
                         "ScheduleNTasksInTimeIntervals"]
OPTIONAL_RULE_KINDS = ["OptionalTaskForceSchedule", "OptionalTaskConditionSchedule", "OptionalTasksDependency", "ForceScheduleNOptionalTasks"]
RESOURCE_CONSTRAINT_KINDS = ["WorkLoad", "ResourceUnavailable", "ResourcePeriodicallyUnavailable", "ResourceTasksDistance",
                             "ResourceNonDelay", "ResourceInterrupted", "ResourcePeriodicallyInterrupted", "SameWorkers", "DistinctWorkers"]
LOGIC_KINDS = ["Not", "And", "Or", "Xor", "Implies", "IfThenElse"]
INDICATOR_KINDS = ["ResourceUtilization", "NumberTasksAssigned", "ResourceCost", "ResourceIdle", "Tardiness", "Earliness",
                   "NumberOfTardyTasks", "MaximumLateness", "MaxBufferLevel", "MinBufferLevel", "FromMathExpression"]
OBJECTIVE_KINDS = ["MinimizeMakespan", "MaximizeResourceUtilization", "MinimizeResourceCost", "Priorities", "TasksStartLatest",
                   "TasksStartEarliest", "MinimizeGreatestStartTime", "MinimizeFlowtime", "MaximizeIndicator", "MinimizeIndicator",
                   "MaximizeMaxBufferLevel", "MinimizeMaxBufferLevel"]


def profile(**over):
    p = copy.deepcopy(DEFAULT_PROFILE)
    p.update(over)
    return p


def _ri(rng, lohi):
    return rng.randint(lohi[0], lohi[1])


def est_horizon(spec):
    hz = spec.get("horizon")
    if hz is not None:
        return hz
    tot = 2
    for t in spec["tasks"]:
        tot += t.get("duration") or t.get("max") or (t.get("min", 0) + 2)
    return min(tot, 20)


class Gen:
    def __init__(self, rng, prof):
        self.rng = rng
        self.p = prof
        self.spec = None
        self.nid = 0

    def cid(self, prefix="c"):
        self.nid += 1
        return f"{prefix}{self.nid}"

    # ---------------------------------------------------------------------------------
    def gen(self):
        rng, p = self.rng, self.p
        spec = {"name": "p", "horizon": None, "tasks": [], "workers": [], "cumulative": [], "selects": [], "assign": [],
                "buffers": [], "constraints": [], "indicators": [], "objectives": []}
        self.spec = spec
        n = _ri(rng, p["n_tasks"])
        total = 0
        for i in range(n):
            t = {"id": f"t{i+1}"}
            r = rng.random()
            if r < p["p_zero"]:
                t["kind"] = "zero"
            elif r < p["p_zero"] + p["p_variable"]:
                t["kind"] = "variable"
                t["min"] = rng.choice([0, 0, 1, 1, 2])
                if rng.random() < 0.7:
                    t["max"] = max(1, t["min"] + rng.randint(0, 3))
                if rng.random() < 0.25:
                    # allowed durations are drawn independently of min/max: values below the
                    # minimum or above the maximum must still be excluded by the other rule
                    hi = (t.get("max") or t["min"] + 3) + 2
                    t["allowed"] = sorted(set(rng.randint(1, hi) for _ in range(rng.choice([1, 2, 2, 3]))))
                total += t.get("max") or t["min"] + 2
            else:
                t["kind"] = "fixed"
                t["duration"] = rng.choice([1, 1, 2, 2, 3, 4])
                total += t["duration"]
            if rng.random() < p["p_optional"]:
                t["optional"] = True
            if rng.random() < p["p_priority"]:
                t["priority"] = rng.choice([0, 1, 2, 3, 5])
            spec["tasks"].append(t)
        if rng.random() < p["p_horizon"]:
            spec["horizon"] = max(1, total + _ri(rng, p["slack"]))
        hz = est_horizon(spec)
        for t in spec["tasks"]:
            dur = t.get("duration") or t.get("min", 0)
            if rng.random() < p["p_release"]:
                t["release"] = rng.randint(0, max(0, hz - dur))
            if rng.random() < p["p_due"]:
                lo = (t.get("release") or 0) + dur
                t["due"] = rng.randint(max(0, lo - 1), max(lo, hz))
                t["deadline"] = rng.random() < p.get("p_deadline", 0.6)
        if rng.random() < p["p_calendar"]:
            spec["delta_time_s"] = rng.choice([60, 900, 3600, 86400])
            if rng.random() < 0.7:
                spec["start_time"] = rng.choice(["2024-01-01T08:00:00", "2023-12-31T23:30:00", "2024-02-28T12:00:00"])
        # ---- resources ----
        nw = _ri(rng, p["n_workers"])
        for i in range(nw):
            w = {"id": f"w{i+1}"}
            if rng.random() < 0.3:
                w["productivity"] = rng.choice([0, 1, 2, 3])
            if rng.random() < p["p_cost"]:
                r = rng.random()
                if r < p["p_poly"]:
                    w["cost"] = {"poly": [rng.choice([1, 2]), rng.choice([0, 1, 3]), rng.choice([0, 2])]}
                elif r < 0.55:
                    w["cost"] = {"const": rng.choice([0, 1, 2, 3, 5])}
                else:
                    w["cost"] = {"linear": [rng.choice([0, 1, 2, 3]), rng.choice([0, 1, 2, 4])]}
            spec["workers"].append(w)
        if rng.random() < p["p_cumulative"]:
            c = {"id": "cw1", "size": rng.choice([2, 2, 3])}
            if rng.random() < 0.4:
                c["productivity"] = rng.choice([1, 2, 3, 4, 5])
            if rng.random() < p["p_cost"] * 0.5:
                c["cost"] = {"const": rng.choice([1, 2, 3, 5])}
            spec["cumulative"].append(c)
        if nw >= 2 and rng.random() < p["p_select"]:
            for k in range(rng.choice([1, 1, 2])):
                ws = rng.sample([w["id"] for w in spec["workers"]], rng.randint(2, nw))
                ws.sort()
                kind = rng.choice(["exact", "exact", "min", "max"])
                spec["selects"].append({"id": f"s{k+1}", "workers": ws, "nb": rng.randint(1, len(ws)), "kind": kind})
        # ---- assignments ----
        sel_used = set()
        for t in spec["tasks"]:
            if rng.random() >= p["p_assign"]:
                continue
            taken = set()
            opts = [w["id"] for w in spec["workers"]] + [c["id"] for c in spec["cumulative"]] + [s["id"] for s in spec["selects"] if s["id"] not in sel_used]
            rng.shuffle(opts)
            for rid in opts[: rng.choice([1, 1, 1, 2])]:
                names = self._flat(rid)
                if taken & names:
                    continue
                a = {"task": t["id"], "resource": rid}
                if rid.startswith("w"):
                    r = rng.random()
                    if r < p["p_dynamic"]:
                        a["dynamic"] = True
                    elif r < p["p_dynamic"] + p["p_delayed"] and t["kind"] == "fixed" and t["duration"] >= 2:
                        if rng.random() < 0.6:
                            a["delay_in"] = 1
                        if rng.random() < 0.6 and t["duration"] - a.get("delay_in", 0) >= 2:
                            a["early_out"] = 1
                if rid.startswith("s"):
                    sel_used.add(rid)
                taken |= names
                spec["assign"].append(a)
            if taken and rng.random() < p["p_work"]:
                t["work"] = rng.randint(1, 6)
        # ---- buffers ----
        nb = _ri(rng, p["n_buffers"])
        for i in range(nb):
            b = {"id": f"b{i+1}", "concurrent": rng.random() < 0.4}
            r = rng.random()
            lvl = rng.choice([0, 0, 1, 2, 3, 5, 8, -2, -4])
            if r < 0.6:
                b["initial"] = lvl
            elif r < 0.8:
                b["final"] = lvl
            else:
                b["initial"] = lvl
                b["final"] = rng.randint(0, 8)
            if rng.random() < 0.4:
                b["lower"] = rng.choice([0, 0, 1, 2, -1, -3, lvl - 2])
            if rng.random() < 0.4:
                b["upper"] = rng.choice([0, 1, 3, 6, 9, 12, lvl, lvl + 2])
            spec["buffers"].append(b)
            users = rng.sample(spec["tasks"], min(len(spec["tasks"]), rng.randint(1, 4)))
            net = 0
            for t in users:
                kind = rng.choice(["TaskLoadBuffer", "TaskUnloadBuffer"])
                q = rng.randint(1, 4)
                spec["constraints"].append({"id": self.cid("bf"), "kind": kind, "task": t["id"], "buffer": b["id"], "quantity": q})
                if not t.get("optional"):
                    net += q if kind == "TaskLoadBuffer" else -q
            # mostly consistent levels (a random final level is almost always infeasible)
            if b.get("initial") is not None and b.get("final") is not None and rng.random() < 0.75:
                b["final"] = b["initial"] + net
            if b.get("lower") is not None and b.get("initial") is not None and rng.random() < 0.7:
                b["lower"] = min(b["lower"], b["initial"] + min(net, 0), b["initial"])
                if b["lower"] < 0 and rng.random() < 0.5:
                    b["initial"] -= b["lower"]
                    if b.get("final") is not None:
                        b["final"] -= b["lower"]
                    b["lower"] = 0
        # ---- constraints ----
        kinds = list(p["constraints"])
        if kinds:
            for _ in range(_ri(rng, p["n_constraints"])):
                k = rng.choice(kinds)
                if k == "GroupPrecedence":
                    spec["constraints"].extend(self.gen_group_precedence())
                    continue
                c = self.gen_constraint(k)
                if c is not None:
                    if rng.random() < p["p_optional_constraint"] and c["kind"] not in ("ForceApplyNOptionalConstraints",):
                        c["optional"] = True
                    spec["constraints"].append(c)
        # ---- indicators ----
        ikinds = list(p["indicators"])
        if ikinds:
            for _ in range(_ri(rng, p["n_indicators"])):
                i = self.gen_indicator(rng.choice(ikinds))
                if i is not None:
                    spec["indicators"].append(i)
        if p.get("indicator_constraints") and spec["indicators"] and rng.random() < p["indicator_constraints"]:
            i = rng.choice(spec["indicators"])
            if rng.random() < 0.5:
                spec["constraints"].append({"id": self.cid("ic"), "kind": "IndicatorTarget", "indicator": i["id"], "value": rng.randint(0, 12)})
            else:
                lo = rng.choice([0, 0, 0, 1, 2, 3, 4, 6, -2])
                c = {"id": self.cid("ic"), "kind": "IndicatorBounds", "indicator": i["id"]}
                r = rng.random()
                if r < 0.4:
                    c["lower"] = lo
                elif r < 0.8:
                    c["upper"] = rng.choice([0, 0, 1, lo + rng.randint(0, 10)])   # tight upper bounds (0: "none allowed")
                else:
                    c["lower"], c["upper"] = lo, lo + rng.choice([0, 0, 1, 3, 10])
                spec["constraints"].append(c)
        # ---- objectives ----
        okinds = list(p["objectives"])
        if okinds:
            for _ in range(_ri(rng, p["n_objectives"])):
                o = self.gen_objective(rng.choice(okinds))
                if o is not None:
                    spec["objectives"].append(o)
        bound_objectives(spec)
        return spec

    def _flat(self, rid):
        for s in self.spec["selects"]:
            if s["id"] == rid:
                return set(s["workers"])
        return {rid}

    # ---------------------------------------------------------------------------------
    def _tasks(self, k=None, optional=None):
        ts = [t["id"] for t in self.spec["tasks"] if optional is None or bool(t.get("optional")) == optional]
        if k is None:
            return ts
        if len(ts) < k:
            return None
        return self.rng.sample(ts, k)

    def _interval(self, hz, minlen=1):
        a = self.rng.randint(0, max(0, hz - minlen))
        b = self.rng.randint(a + minlen, max(a + minlen, min(hz + 1, a + 5)))
        return [a, b]

    def _disjoint_intervals(self, hz, n):
        out = []
        for _ in range(n):
            for _try in range(5):
                iv = self._interval(hz)
                if all(iv[1] <= o[0] or iv[0] >= o[1] for o in out):
                    out.append(iv)
                    break
        return sorted(out)

    def _busy_count(self, rid):
        """number of busy intervals the plain worker rid will have."""
        n = 0
        for a in self.spec["assign"]:
            if a["resource"] == rid or rid in self._flat(a["resource"]) and a["resource"] != rid:
                n += 1
        return n

    def _assigned_resources(self, minbusy=1, allow_cumulative=True):
        out = []
        for w in self.spec["workers"]:
            if self._busy_count(w["id"]) >= minbusy:
                out.append(w["id"])
        if allow_cumulative:
            for c in self.spec["cumulative"]:
                if sum(1 for a in self.spec["assign"] if a["resource"] == c["id"]) >= minbusy:
                    out.append(c["id"])
        return out

    def gen_constraint(self, kind, depth=0):
        rng = self.rng
        hz = est_horizon(self.spec)
        c = {"id": self.cid(), "kind": kind}
        if kind in ("TaskStartAt", "TaskEndAt"):
            t = self._tasks(1)
            c.update(task=t[0], value=rng.randint(0, hz))
        elif kind in ("TaskStartAfter", "TaskEndBefore"):
            t = self._tasks(1)
            c.update(task=t[0], value=rng.randint(0, hz), mode=rng.choice(["lax", "strict"]))
        elif kind == "TaskPrecedence":
            t = self._tasks(2)
            if not t:
                return None
            c.update(before=t[0], after=t[1], offset=rng.choice([0, 0, 1, 2, 3]), mode=rng.choice(["lax", "strict", "tight"]))
        elif kind in ("TasksStartSynced", "TasksEndSynced", "TasksDontOverlap"):
            t = self._tasks(2)
            if not t:
                return None
            c.update(t1=t[0], t2=t[1])
        elif kind == "TasksContiguous":
            n = len(self.spec["tasks"])
            if n < 2:
                return None
            c.update(tasks=self._tasks(rng.randint(2, min(3, n))))
        elif kind in ("UnorderedTaskGroup", "OrderedTaskGroup"):
            n = len(self.spec["tasks"])
            if n < 2:
                return None
            c.update(tasks=self._tasks(rng.randint(2, min(3, n))))
            r = rng.random()
            if r < 0.35:
                a = rng.randint(0, max(0, hz // 2))
                c["interval"] = [a, rng.randint(a + 1, hz + 1)]
            elif r < 0.7:
                c["length"] = rng.randint(1, hz)
            if kind == "OrderedTaskGroup":
                c["mode"] = rng.choice(["lax", "strict", "tight"])
        elif kind == "ScheduleNTasksInTimeIntervals":
            n = len(self.spec["tasks"])
            ts = self._tasks(rng.randint(1, min(3, n)))
            mode = rng.choice(["exact", "min", "max"])
            ivs = self._disjoint_intervals(hz, rng.choice([1, 1, 2, 2, 3]))
            if mode == "min" and rng.random() < 0.4:
                ivs = sorted(self._interval(hz, 2) for _ in range(rng.choice([2, 2, 3])))   # may overlap
            c.update(tasks=ts, nb=rng.randint(0, len(ts)), intervals=ivs, mode=mode)
        elif kind == "OptionalTaskForceSchedule":
            t = self._tasks(1, optional=True)
            if not t:
                return None
            c.update(task=t[0], flag=rng.random() < 0.5)
        elif kind == "OptionalTaskConditionSchedule":
            t = self._tasks(1, optional=True)
            others = [x for x in self._tasks(optional=False)]
            if not t or not others:
                return None
            o = rng.choice(others)
            c.update(task=t[0], cond=[rng.choice(["<", "<=", "==", ">=", ">"]), [rng.choice(["s", "e"]), o], rng.randint(0, hz)])
        elif kind == "OptionalTasksDependency":
            t2 = self._tasks(1, optional=True)
            if not t2:
                return None
            others = [x for x in self._tasks() if x != t2[0]]
            if not others:
                return None
            c.update(t1=rng.choice(others), t2=t2[0])
        elif kind == "ForceScheduleNOptionalTasks":
            ts = self._tasks(optional=True)
            if not ts:
                return None
            k = rng.randint(1, len(ts))
            sub = rng.sample(ts, k)
            c.update(tasks=sub, nb=rng.randint(1, k), mode=rng.choice(["exact", "min", "max"]))
        elif kind == "WorkLoad":
            rs = self._assigned_resources()
            if not rs:
                return None
            ivs = self._disjoint_intervals(hz, rng.choice([1, 1, 2]))
            c.update(resource=rng.choice(rs), intervals=[[a, b, rng.randint(0, b - a)] for a, b in ivs], mode=rng.choice(["max", "max", "exact", "min"]))
        elif kind in ("ResourceUnavailable", "ResourceInterrupted"):
            rs = self._assigned_resources(allow_cumulative=(kind == "ResourceUnavailable"))
            if not rs:
                return None
            c.update(resource=rng.choice(rs), intervals=self._disjoint_intervals(hz, rng.choice([1, 1, 2])))
        elif kind in ("ResourcePeriodicallyUnavailable", "ResourcePeriodicallyInterrupted"):
            rs = self._assigned_resources(allow_cumulative=False)
            if not rs:
                return None
            period = rng.randint(3, 6)
            a = rng.randint(0, period - 1)
            b = rng.randint(a + 1, period)
            c.update(resource=rng.choice(rs), intervals=[[a, b]], period=period)
            if rng.random() < 0.3:
                c["offset"] = rng.randint(0, period)
            if rng.random() < 0.3:
                c["start"] = rng.randint(0, hz // 2)
            if rng.random() < 0.3:
                c["end"] = rng.randint(hz // 2, hz)
        elif kind == "ResourceNonDelay":
            rs = self._assigned_resources(minbusy=2, allow_cumulative=False)
            if not rs:
                return None
            c.update(resource=rng.choice(rs))
        elif kind == "ResourceTasksDistance":
            rs = self._assigned_resources(minbusy=2, allow_cumulative=False)
            if not rs:
                return None
            c.update(resource=rng.choice(rs), distance=rng.randint(0, 3), mode=rng.choice(["exact", "min", "max"]))
            if rng.random() < 0.3:
                c["intervals"] = self._disjoint_intervals(hz, rng.choice([1, 2]))
        elif kind in ("SameWorkers", "DistinctWorkers"):
            used = [s["id"] for s in self.spec["selects"] if any(a["resource"] == s["id"] for a in self.spec["assign"])]
            if len(used) < 2:
                return None
            s = rng.sample(used, 2)
            c.update(s1=s[0], s2=s[1])
        elif kind in LOGIC_KINDS:
            return self.gen_logic(kind, depth)
        elif kind == "ConstraintFromExpression":
            c.update(expr=self.gen_bool_expr())
        elif kind == "ForceApplyNOptionalConstraints":
            opt = [x["id"] for x in self.spec["constraints"] if x.get("optional")]
            if not opt:
                return None
            sub = rng.sample(opt, rng.randint(1, len(opt)))
            c.update(constraints=sub, nb=rng.randint(1, len(sub)), mode=rng.choice(["exact", "min", "max"]))
        else:
            raise ValueError(kind)
        return c

    def gen_group_precedence(self):
        """two disjoint task groups and a precedence between the groups themselves"""
        rng = self.rng
        ids = self._tasks()
        if len(ids) < 2 or any(c.get("kind") == "TaskPrecedence" and c.get("groups") for c in self.spec["constraints"]):
            return []
        rng.shuffle(ids)
        k = rng.randint(1, len(ids) - 1)
        ga, gb = ids[:k][:2], ids[k:][:2]
        hz = est_horizon(self.spec)
        out = []
        for members in (ga, gb):
            g = {"id": self.cid("g"), "kind": rng.choice(["UnorderedTaskGroup", "UnorderedTaskGroup", "OrderedTaskGroup"]), "tasks": members}
            if len(members) < 2:
                g["kind"] = "UnorderedTaskGroup"
            if g["kind"] == "OrderedTaskGroup":
                g["mode"] = rng.choice(["lax", "strict", "tight"])
            r = rng.random()
            if r < 0.3:
                a = rng.randint(0, max(0, hz // 2))
                g["interval"] = [a, rng.randint(a + 1, hz + 1)]
            elif r < 0.6:
                g["length"] = rng.randint(1, hz)
            out.append(g)
        out.append({"id": self.cid(), "kind": "TaskPrecedence", "before": out[0]["id"], "after": out[1]["id"], "offset": rng.choice([0, 0, 1, 2]),
                    "mode": rng.choice(["lax", "lax", "strict", "tight"]), "groups": True})
        return out

    def gen_bool_expr(self):
        rng = self.rng
        hz = est_horizon(self.spec)
        ts = self._tasks()
        t = rng.choice(ts)
        lhs = [rng.choice(["s", "e"]), t]
        if len(ts) > 1 and rng.random() < 0.4:
            u = rng.choice([x for x in ts if x != t])
            rhs = ["+", [rng.choice(["s", "e"]), u], rng.randint(0, 2)]
        else:
            rhs = rng.randint(0, hz)
        return [rng.choice(["<", "<=", "==", "!=", ">=", ">"]), lhs, rhs]

    @staticmethod
    def _maybe_pybool(cond):
        """about one condition in eight of Implies / IfThenElse is a plain Python bool (the annotated
        type allows it). Decided from a digest of the drawn expression, not from the PRNG, so that
        the rest of the plan is the one the same seed gave before this variant existed."""
        import zlib, json as _json
        h = zlib.crc32(_json.dumps(cond).encode())
        return ["py", bool(h & 16)] if h % 8 == 0 else cond

    def gen_operand(self, depth):
        rng = self.rng
        r = rng.random()
        if depth < self.p.get("logic_depth", 2) and r < 0.25:
            return self.gen_logic(rng.choice(LOGIC_KINDS), depth + 1)
        if r < 0.5:
            return {"expr": self.gen_bool_expr()}
        kinds = ["TaskStartAt", "TaskStartAfter", "TaskEndAt", "TaskEndBefore", "TaskPrecedence", "TasksStartSynced", "TasksEndSynced", "TasksDontOverlap"]
        for _ in range(4):
            c = self.gen_constraint(rng.choice(kinds), depth + 1)
            if c is not None:
                if rng.random() < self.p.get("p_optional_operand", 0.0):
                    c["optional"] = True   # its own meaning is then "applied implies relation"
                return c
        return {"expr": self.gen_bool_expr()}

    def gen_logic(self, kind, depth):
        rng = self.rng
        c = {"id": self.cid("L"), "kind": kind}
        if kind == "Not":
            c["arg"] = self.gen_operand(depth)
        elif kind in ("And", "Or"):
            c["args"] = [self.gen_operand(depth) for _ in range(rng.choice([2, 2, 3]))]
        elif kind == "Xor":
            c["a"] = self.gen_operand(depth)
            c["b"] = self.gen_operand(depth)
        elif kind == "Implies":
            c["cond"] = self._maybe_pybool(self.gen_bool_expr())
            c["args"] = [self.gen_operand(depth) for _ in range(rng.choice([1, 1, 2]))]
        elif kind == "IfThenElse":
            c["cond"] = self._maybe_pybool(self.gen_bool_expr())
            c["then"] = [self.gen_operand(depth) for _ in range(rng.choice([1, 1, 2]))]
            c["else"] = [self.gen_operand(depth) for _ in range(rng.choice([1, 1, 2]))]
        return c

    # ---------------------------------------------------------------------------------
    def gen_indicator(self, kind):
        rng = self.rng
        spec = self.spec
        i = {"id": self.cid("i"), "kind": kind}
        if kind in ("ResourceUtilization", "NumberTasksAssigned"):
            rs = self._assigned_resources()
            if not rs:
                return None
            i["resource"] = rng.choice(rs)
            if any(x["kind"] == kind and x["resource"] == i["resource"] for x in spec["indicators"]):
                return None
        elif kind == "ResourceIdle":
            # (a worker with a single busy interval makes the constructor raise
            #  "assertion And already added": two empty orderings hash alike - C18 matter)
            rs = self._assigned_resources(minbusy=2, allow_cumulative=False)
            if not rs:
                return None
            i["resource"] = rng.choice(rs)
            if any(x["kind"] == kind and x["resource"] == i["resource"] for x in spec["indicators"]):
                return None
        elif kind == "ResourceCost":
            rs = self._assigned_resources()
            if not rs:
                return None
            i["resources"] = sorted(rng.sample(rs, rng.randint(1, len(rs))))
            if any(x["kind"] == kind and x["resources"] == i["resources"] for x in spec["indicators"]):
                return None
        elif kind in ("Tardiness", "Earliness", "NumberOfTardyTasks", "MaximumLateness"):
            ts = [t for t in spec["tasks"]]
            sub = rng.sample(ts, rng.randint(1, len(ts)))
            hz = est_horizon(spec)
            for t in sub:
                if t.get("due") is None:
                    t["due"] = rng.randint(1, max(1, hz))
                    t["deadline"] = rng.random() < 0.2
            i["tasks"] = [t["id"] for t in sub]
            if any(x["kind"] == kind for x in spec["indicators"]):
                return None
        elif kind in ("MaxBufferLevel", "MinBufferLevel"):
            if not spec["buffers"]:
                return None
            i["buffer"] = rng.choice(spec["buffers"])["id"]
            if any(x["kind"] == kind and x["buffer"] == i["buffer"] for x in spec["indicators"]):
                return None
        elif kind == "FromMathExpression":
            # reading the times of a task that may be unscheduled is meaningless
            # (a placeholder value): user expressions range over mandatory tasks
            ts = self._tasks(optional=False)
            if not ts:
                return None
            t = rng.choice(ts)
            e = [rng.choice(["s", "e"]), t]
            if len(ts) > 1 and rng.random() < 0.6:
                u = rng.choice([x for x in ts if x != t])
                e = [rng.choice(["+", "-"]), e, ["*", rng.randint(1, 3), [rng.choice(["s", "e"]), u]]]
            i["expr"] = e
            if rng.random() < self.p.get("p_indicator_bounds", 0.0) and spec.get("horizon") is not None:
                # truthful (outer) bounds of the expression over [0, horizon]
                lo, hi = self._expr_range(e, spec["horizon"])
                i["bounds"] = [lo, hi]
        else:
            raise ValueError(kind)
        return i

    def _expr_range(self, e, H):
        """outer bounds of an arithmetic spec expression when every task time lies in [0, H]
        (start of a task with a fixed duration d: [release, H - d])"""
        if isinstance(e, int):
            return e, e
        op = e[0]
        if op in ("s", "e"):
            t = next(x for x in self.spec["tasks"] if x["id"] == e[1])
            d = t.get("duration") or t.get("min", 0) or 0
            rel = t.get("release") or 0
            return (rel, H - d) if op == "s" else (rel + d, H)
        a, b = self._expr_range(e[1], H), self._expr_range(e[2], H)
        if op == "+":
            return a[0] + b[0], a[1] + b[1]
        if op == "-":
            return a[0] - b[1], a[1] - b[0]
        if op == "*":
            c = [a[0] * b[0], a[0] * b[1], a[1] * b[0], a[1] * b[1]]
            return min(c), max(c)
        raise ValueError(e)

    def gen_objective(self, kind):
        rng = self.rng
        spec = self.spec
        o = {"kind": kind}
        if spec["objectives"] and objective_direction(spec["objectives"][0]["kind"]) != objective_direction(kind):
            return None  # several objectives: same direction only (C07)
        if any(x["kind"] == kind for x in spec["objectives"]) and kind not in ("MaximizeIndicator", "MinimizeIndicator"):
            return None
        if kind == "MaximizeResourceUtilization":
            rs = self._assigned_resources()
            if not rs:
                return None
            o["resource"] = rng.choice(rs)
            if any(x["kind"] == "ResourceUtilization" and x["resource"] == o["resource"] for x in spec["indicators"]):
                return None
        elif kind == "MinimizeResourceCost":
            rs = self._assigned_resources()
            if not rs:
                return None
            o["resources"] = sorted(rng.sample(rs, rng.randint(1, len(rs))))
        elif kind == "MinimizeFlowtimeSingleResource":
            rs = self._assigned_resources(minbusy=1, allow_cumulative=False)
            if not rs:
                return None
            o["resource"] = rng.choice(rs)
            # (no time_interval: when no task of the resource lies inside it, the flowtime is a
            #  difference of two unconstrained unknowns - bounded below by 0 but starting from
            #  wherever z3 likes, i.e. not a bounded objective in the sense of C07)
        elif kind in ("MaximizeMaxBufferLevel", "MinimizeMaxBufferLevel"):
            if not spec["buffers"]:
                return None
            o["buffer"] = rng.choice(spec["buffers"])["id"]
            if any(x["kind"] == "MaxBufferLevel" and x["buffer"] == o["buffer"] for x in spec["indicators"]):
                return None
            if any(x["kind"] in ("MaximizeMaxBufferLevel", "MinimizeMaxBufferLevel") for x in spec["objectives"]):
                return None
        elif kind in ("MaximizeIndicator", "MinimizeIndicator"):
            if not spec["indicators"]:
                return None
            used = set(x.get("indicator") for x in spec["objectives"])
            cands = [i for i in spec["indicators"] if i["id"] not in used]
            if not cands:
                return None
            o["indicator"] = rng.choice(cands)["id"]
            o["weight"] = rng.choice([1, 1, 2, 3])
            if spec["objectives"]:
                # a second or later term of a weighted sum may carry a negative weight (about one in
                # three; decided from a digest, not from the PRNG: the other plans of a seed stay as they were)
                import zlib
                if zlib.crc32(repr((o["indicator"], o["weight"], len(spec["tasks"]), spec.get("horizon"))).encode()) % 3 == 0:
                    o["weight"] = -o["weight"]
        return o


MAX_OBJECTIVES = {"MaximizeResourceUtilization", "TasksStartLatest", "MaximizeMaxBufferLevel", "MaximizeIndicator"}


def objective_direction(kind):
    return "max" if kind in MAX_OBJECTIVES else "min"


def bound_objectives(spec):
    """C07 speaks about bounded objectives: without a horizon, objectives that reward late
    or long schedules are unbounded and the incremental loop would never end."""
    if spec.get("horizon") is None and any(o["kind"] in ("TasksStartLatest", "MaximizeIndicator", "MinimizeIndicator", "MaximizeMaxBufferLevel",
                                                        "MaximizeResourceUtilization") for o in spec.get("objectives", [])):
        spec["horizon"] = est_horizon(spec) + 1
    return spec


def has_nonlinear(spec):
    """does the encoding of this spec leave linear integer arithmetic?  (non-constant cost
    functions integrated over variable spans; utilisation divided by a variable horizon;
    periodic constraints use mod/div by constants only, which stays linear)"""
    costly = set()
    for w in spec.get("workers", []):
        c = w.get("cost")
        if c and ("poly" in c or ("linear" in c and c["linear"][0] != 0)):
            costly.add(w["id"])
    for i in spec.get("indicators", []):
        if i["kind"] == "ResourceCost" and costly & set(i["resources"]):
            return True
        if i["kind"] == "ResourceUtilization" and spec.get("horizon") is None:
            return True
    for o in spec.get("objectives", []):
        if o["kind"] == "MinimizeResourceCost" and costly & set(o["resources"]):
            return True
        if o["kind"] == "MaximizeResourceUtilization" and spec.get("horizon") is None:
            return True
    return False


def gen_spec(rng, prof):
    return Gen(rng, prof).gen()
