"""World: executes one plan (clients, scripted public-API calls, environment directives)
against the real library under the seams of sim.engine, and records the history.

Nothing here judges anything: oracles (``oracles/``) read the returned history.
"""
from __future__ import annotations

import copy
import hashlib
import json
import traceback
import warnings

import z3 as _z3

from . import engine
from .engine import Env, HarnessError, SimInterrupt, StepCapExceeded, keyed_rng
from .spec import build, BuildRejected


def canon(obj):
    return json.dumps(obj, sort_keys=True, separators=(",", ":"), default=_default)


def _default(o):
    if isinstance(o, (set, frozenset)):
        return sorted(o)
    if isinstance(o, tuple):
        return list(o)
    return str(o)


def digest(events):
    return hashlib.sha256(canon(events).encode()).hexdigest()


def sol_to_dict(sol, problem=None):
    out = {"horizon": sol.horizon, "tasks": {}, "resources": {}, "buffers": {}, "indicators": dict(sol.indicators)}
    for name, t in sol.tasks.items():
        out["tasks"][name] = {
            "start": t.start, "end": t.end, "duration": t.duration, "scheduled": t.scheduled, "optional": t.optional,
            "assigned_resources": list(t.assigned_resources), "type": t.type,
            "start_time": None if t.start_time is None else t.start_time.isoformat() if hasattr(t.start_time, "isoformat") else str(t.start_time),
            "end_time": None if t.end_time is None else t.end_time.isoformat() if hasattr(t.end_time, "isoformat") else str(t.end_time),
            "duration_time": None if t.duration_time is None else t.duration_time.total_seconds(),
            "release_date": t.release_date, "due_date": t.due_date, "priority": t.priority, "work_amount": t.work_amount,
        }
    for name, r in sol.resources.items():
        out["resources"][name] = {"assignments": [list(a) for a in r.assignments], "type": r.type}
    for name, b in sol.buffers.items():
        out["buffers"][name] = {"level": list(b.level), "level_change_times": list(b.level_change_times)}
    return out


def calendar_meta(sol, problem):
    """C11 calendar arithmetic, computed from the live objects (datetimes compared as objects)."""
    if problem.delta_time is None:
        return None
    rows = {}
    for name, t in sol.tasks.items():
        dt = problem.delta_time
        want_dur = t.duration * dt
        if problem.start_time is not None:
            want_start = problem.start_time + t.start * dt
            want_end = problem.start_time + t.end * dt
        else:
            want_start = t.start * dt
            want_end = t.end * dt
        ok = True
        if t.scheduled:
            ok = (t.duration_time == want_dur) and (t.start_time == want_start) and (t.end_time == want_end)
        rows[name] = {"ok": bool(ok), "start_time": str(t.start_time), "want_start": str(want_start),
                      "end_time": str(t.end_time), "want_end": str(want_end), "duration_time": str(t.duration_time), "want_dur": str(want_dur)}
    return rows


class Client:
    def __init__(self, cid, spec, config):
        self.id = cid
        self.spec = spec
        self.config = dict(config or {})
        self.handles = None
        self.solver = None
        self.problem = None
        self.built = False
        self.build_error = None
        self.solutions = []   # solution dicts returned so far (in order)
        self.sol_objs = []    # the live SchedulingSolution objects
        self.models = []      # engine model snapshots matching self.solutions
        self.last_solution_obj = None
        self.blocked = []     # spec-language exprs excluded by earlier find_another* calls
        self.cur_model = None # snapshot of the model the solver object currently keeps


class World:
    def __init__(self, plan, resolvers=None):
        self.plan = plan
        self.run_seed = plan["run_seed"]
        self.env = Env(self.run_seed, rlimit=plan.get("rlimit", engine.RLIMIT_DEFAULT), step_cap=plan.get("step_cap", engine.STEP_CAP_DEFAULT))
        self.env.trace_level = plan.get("trace_level", 1)
        self.env.fs.faults = copy.deepcopy(plan.get("fs_faults", []))
        self.env.uuid.collide_at = set(plan.get("uuid_collide", []))
        self.clients = {}
        self.events = []
        self.resolvers = resolvers or {}
        self.concrete_script = []
        self.build_rejected = None
        self.warnings = []

    # ---------------------------------------------------------------------------------
    def run(self):
        import processscheduler as ps
        self.ps = ps
        engine.install(self.env)
        try:
            with warnings.catch_warnings(record=True) as wlist:
                warnings.simplefilter("always")
                self._wlist = wlist
                self._wseen = 0
                for c in self.plan["clients"]:
                    if c.get("dynamic"):
                        continue
                    spec = c["spec"]
                    if isinstance(spec, str):
                        spec = self._derived_spec(spec)
                    self.clients[c["id"]] = Client(c["id"], spec, c.get("config"))
                for i, step in enumerate(self.plan["script"]):
                    self._step(i, step)
                    if self.build_rejected is not None:
                        break
                self.warnings = [str(w.message)[:120] for w in wlist][:20]
        finally:
            engine.uninstall()
        return self.result()

    def _derived_spec(self, ref):
        # "=A" : same spec object as client A (deep copy)
        base = ref[1:]
        for c in self.plan["clients"]:
            if c["id"] == base:
                s = c["spec"]
                if isinstance(s, str):
                    s = self._derived_spec(s)
                return copy.deepcopy(s)
        raise HarnessError(f"bad derived spec {ref}")

    def result(self):
        env = self.env
        return {
            "events": self.events,
            "digest": digest(self.events),
            "faults": dict(env.faults),
            "steer_admitted": env.steer_admitted,
            "steer_refused": env.steer_refused,
            "checks": env.total_checks,
            "sim_seconds": env.clock.now,
            "inconclusive": env.inconclusive,
            "build_rejected": self.build_rejected,
            "fs_fired": list(env.fs.fired),
            "fs_files": dict(env.fs.files),
            "fs_log": [list(x) for x in env.fs.log],
            "uuid_collisions": env.uuid.collisions_fired,
            "concrete_script": self.concrete_script,
            "warnings": self.warnings,
            "stub_parallel": env.stub_parallel,
            "real_timeout_guard": env.real_timeout_guard,
            "budget_exhausted": env.budget_exhausted,
            "clients": {cid: {"ind_names": dict(cl.handles.ind_name) if cl.handles else {},
                              "obj_ind_names": list(cl.handles.obj_ind_names) if cl.handles else [],
                              "spec": cl.spec, "config": cl.config} for cid, cl in self.clients.items()},
        }

    # ---------------------------------------------------------------------------------
    def _ensure_built(self, cl: Client):
        if cl.built:
            return True
        cl.built = True
        env = self.env
        env.uuid.stream = "build:" + cl.id
        env.uuid.n = 0
        try:
            cl.handles = build(cl.spec, self.ps)
            cl.problem = cl.handles.problem
        except BuildRejected as exc:
            cl.build_error = str(exc)
            self.build_rejected = f"{cl.id}: {exc}"
            return False
        return True

    def _ensure_solver(self, cl: Client):
        if cl.solver is not None:
            return True
        if not self._ensure_built(cl):
            return False
        env = self.env
        env.current_client = cl.id
        env.optimize_priority = cl.config.get("optimize_priority", "pareto") if cl.config.get("optimizer") == "optimize" else None
        cfg = dict(cl.config)
        cl.solver = self.ps.SchedulingSolver(problem=cl.problem, **cfg)
        return True

    def _resolve_env(self, cl, step):
        """Turn symbolic directives into explicit ones (deterministically)."""
        out = []
        for d in step.get("env") or []:
            out.append(self._resolve_directive(cl, step, d))
        default = self._resolve_directive(cl, step, step.get("default") or {})
        return out, default

    def _resolve_directive(self, cl, step, d):
        if not d:
            return {}
        d = dict(d)
        st = d.get("steer")
        if st and st.get("mode") not in (None, "pin", "greedy"):
            fn = self.resolvers.get(st["mode"])
            if fn is None:
                raise HarnessError(f"no resolver for steer mode {st['mode']}")
            res = fn(self, cl, step, st)
            if res is None:
                d.pop("steer")
                d["steer_skipped"] = st["mode"]
            else:
                d["steer"] = res
                if st.get("keep_symbolic"):
                    d["symbolic_steer"] = st
        return d

    def _only_if(self, step):
        cond = step.get("only_if")
        if not cond:
            return True
        prev = None
        for e in reversed(self.events):
            if e["client"] == cond["client"]:
                prev = e
                break
        if prev is None:
            return False
        if cond["when"] == "false_no_fault":
            return prev.get("outcome") == "false" and not prev.get("faults")
        if cond["when"] == "solution":
            return prev.get("outcome") == "solution"
        raise HarnessError(f"bad only_if {cond}")

    def _step(self, i, step):
        env = self.env
        if not self._only_if(step):
            self.events.append({"seq": i, "client": step["client"], "op": step["op"], "outcome": "skipped"})
            self.concrete_script.append(copy.deepcopy(step))
            return
        if step["op"] == "examine":
            # a fresh examiner client whose spec is derived from the history so far
            fn = self.resolvers.get(step["args"]["derive"])
            if fn is None:
                raise HarnessError(f"no resolver {step['args']['derive']}")
            spec = fn(self, step)
            if spec is None:
                self.events.append({"seq": i, "client": step["client"], "op": step["op"], "outcome": "skipped"})
                self.concrete_script.append(copy.deepcopy(step))
                return
            cid = step["client"]
            self.clients[cid] = Client(cid, spec, step["args"].get("config"))
            step = dict(step)
            step["op"] = "solve"
            step["_examine"] = True
        if step["client"] not in self.clients:
            self.events.append({"seq": i, "client": step["client"], "op": step["op"], "outcome": "skipped"})
            self.concrete_script.append(copy.deepcopy(step))
            return
        cl = self.clients[step["client"]]
        op = step["op"]
        ev = {"seq": i, "client": cl.id, "op": op}
        if step.get("_examine"):
            ev["examine"] = True
            ev["examiner_constraints"] = len(cl.spec.get("constraints", []))
        if "args" in step:
            ev["args"] = step["args"]
        if op == "build":
            self._ensure_built(cl)
            ev["outcome"] = "ok" if cl.build_error is None else "build_rejected"
            if cl.build_error:
                ev["exc"] = cl.build_error
            self.events.append(ev)
            self.concrete_script.append(copy.deepcopy(step))
            return
        if not self._ensure_built(cl):
            ev["outcome"] = "build_rejected"
            ev["exc"] = cl.build_error
            self.events.append(ev)
            return
        env.uuid.stream = f"op{i}:{cl.id}"
        env.uuid.n = 0
        env_list, default = self._resolve_env(cl, step)
        env.begin_op(i, cl.id, cl.handles, env_list, default)
        env.optimize_priority = cl.config.get("optimize_priority", "pareto") if cl.config.get("optimizer") == "optimize" else None
        n_res0 = len(env.resolved_steers)
        t0 = env.clock.now
        value = None
        try:
            if op == "ctor":
                self._ensure_solver(cl)
                ev["outcome"] = "ok"
            else:
                self._ensure_solver(cl)
                value = self._call(cl, op, step, ev)
        except StepCapExceeded as exc:
            ev["outcome"] = "no_progress"
            ev["exc"] = str(exc)
        except SimInterrupt:
            ev["outcome"] = "interrupted"
        except HarnessError:
            raise
        except BaseException as exc:  # noqa: BLE001 - everything the library throws is a result
            if isinstance(exc, (KeyboardInterrupt, SystemExit, MemoryError)):
                raise
            ev["outcome"] = "exception"
            ev["exc"] = f"{type(exc).__name__}: {str(exc)[:300]}"
            tb = traceback.extract_tb(exc.__traceback__)
            ev["exc_where"] = [f"{fr.filename.rsplit('/', 1)[-1]}:{fr.name}" for fr in tb[-3:]]
        ev["faults"] = list(env.op_faults)
        self._scan_prints(ev)
        ev["checks"] = env.op_checks
        ev["sim_dt"] = round(env.clock.now - t0, 6)
        if env.trace_level:
            ev["trace"] = env.op_trace
        steers = [t.get("steer") for t in env.op_trace if t.get("e") == "check" and t.get("steer")]
        if steers:
            ev["steers"] = steers
        ev["depth_after"] = cl.solver._solver.depth if (cl.solver is not None and cl.solver._solver is not None and hasattr(cl.solver._solver, "depth")) else None
        self.events.append(ev)
        # concretised step: symbolic steers replaced by the explicit pins that were used
        cs = copy.deepcopy(step)
        if cs.pop("_examine", None):
            cs["op"] = "examine"
        if step.get("env") or step.get("default"):
            cs["env"] = self._concretise(env_list, default, env.op_checks, env.resolved_steers[n_res0:])
            cs.pop("default", None)
        self.concrete_script.append(cs)

    @staticmethod
    def _marker(a):
        if "Found optimum" in a:
            return "bound" if "Stop incremental solver" in a else "optimum"
        if "No solution found" in a:
            return "no_solution"
        if "Max time exceeded" in a:
            return "max_time"
        if "Max time expected" in a:
            return "expected_time"
        if "No solution can be found" in a:
            return "unsat_msg" if "Unsatisfiable problem" in a else "unknown_msg"
        if "Can't find a better solution" in a:
            return "no_better"
        return None

    def _scan_prints(self, ev):
        """what the library printed during this op: loop-exit markers and the Constraint
        objects of an infeasibility diagnosis (objects, not parsed text)"""
        from processscheduler.constraint import Constraint
        recs = self.env.printer.records
        marks = []
        named = []
        found = []
        in_diag = False
        for args in recs:
            for a in args:
                if isinstance(a, str):
                    if "Found value:" in a:
                        try:
                            found.append(int(a.split("Found value:")[1].split()[0]))
                        except (ValueError, IndexError):
                            pass
                    m = self._marker(a)
                    if m:
                        marks.append(m)
                    if "Unsatisfied constraints" in a:
                        in_diag = True
                        ev["diagnosis_header"] = a.strip()
                elif isinstance(a, Constraint) and in_diag:
                    named.append(a.name)
        if marks:
            ev["prints"] = marks
        if ev.get("outcome") == "no_progress" and len(found) >= 50:
            # the step cap cut an incremental optimisation whose incumbent improved at every single
            # iteration (the engine may start thousands of units from the optimum and come down
            # one unit per model): slow convergence, not a livelock - the run is inconclusive
            d = [b - a for a, b in zip(found, found[1:])]
            if all(x < 0 for x in d) or all(x > 0 for x in d):
                ev["outcome"] = "slow_convergence"
                ev["incumbents"] = [found[0], found[-1], len(found)]
        if in_diag:
            ev["diagnosis"] = named
        self.env.printer.records = []
        for w in self._pending_warnings():
            if "maximum number of iteration" in w:
                ev.setdefault("prints", []).append("max_iter")

    def _pending_warnings(self):
        out = []
        wl = getattr(self, "_wlist", None)
        if wl is not None:
            while self._wseen < len(wl):
                out.append(str(wl[self._wseen].message))
                self._wseen += 1
        return out

    def _concretise(self, env_list, default, n_checks, resolved):
        by_k = {r["k"]: r for r in resolved}
        out = []
        for k in range(1, max(n_checks, len(env_list)) + 1):
            d = dict(env_list[k - 1]) if k - 1 < len(env_list) else dict(default)
            st = d.get("steer")
            if d.get("symbolic_steer"):
                # derived from an artefact of this very run (an exported file): a replay derives it again
                d["steer"] = d.pop("symbolic_steer")
                out.append(d)
                continue
            if st is not None:
                r = by_k.get(k)
                if r is not None:
                    d["steer"] = {"mode": "pin", "pins": r["pins"]}
                    for key in ("expect", "tag"):
                        if key in st:
                            d["steer"][key] = st[key]
                else:
                    # refused / skipped: keep explicit pins if it had any, else drop
                    if st.get("mode") == "pin":
                        d["steer"] = st
                    else:
                        d.pop("steer")
            out.append(d)
        return out

    # ---------------------------------------------------------------------------------
    def _record_solution(self, cl, ev, res):
        env = self.env
        if res is False:
            ev["outcome"] = "false"
            return
        if res is None:
            ev["outcome"] = "none"
            return
        sd = sol_to_dict(res)
        ev["outcome"] = "solution"
        ev["solution"] = sd
        cal = calendar_meta(res, cl.problem)
        if cal:
            ev["calendar"] = cal
        # the engine model behind this solution = the model the library kept
        m = cl.solver._model
        snap = env.snapshot_model(m) if m is not None else None
        ev["model"] = snap
        cl.solutions.append(sd)
        cl.sol_objs.append(res)
        cl.models.append(snap)
        cl.last_solution_obj = res

    def _call(self, cl, op, step, ev):
        s = cl.solver
        env = self.env
        if op == "initialize":
            s.initialize()
            ev["outcome"] = "ok"
        elif op == "solve":
            res = s.solve()
            self._record_solution(cl, ev, res)
        elif op == "find_another":
            if step.get("if_model") and s._model is None:
                ev["outcome"] = "skipped"
                return
            if s._model is not None:
                snap = env.snapshot_model(s._model)
                ors = []
                for t in cl.spec["tasks"]:
                    tid = t["id"]
                    if f"s:{tid}" in snap:
                        ors.append(["!=", ["s", tid], snap[f"s:{tid}"]])
                        ors.append(["!=", ["e", tid], snap[f"e:{tid}"]])
                    if f"x:{tid}" in snap:
                        ors.append(["!=", ["x", tid], snap[f"x:{tid}"]])
                ev["blocks"] = ["or"] + ors
            try:
                res = s.find_another_solution()
            except (OSError, SimInterrupt):
                # raised out of the solve() that follows the blocking clause (injected disk fault while
                # saving an intermediate state): the clause was appended and stays
                if "blocks" in ev:
                    cl.blocked.append(ev["blocks"])
                raise
            if "blocks" in ev:
                cl.blocked.append(ev["blocks"])
            self._record_solution(cl, ev, res)
        elif op == "find_another_for":
            if step.get("if_model") and s._model is None:
                ev["outcome"] = "skipped"
                return
            var = cl.handles.vars[step["args"]["var"]]
            if s._model is not None:
                try:
                    ev["var_before"] = engine._val(s._model, var)
                except _z3.Z3Exception:
                    pass
            def note_block():
                if ev.get("var_before") is not None:
                    hn = step["args"]["var"]
                    kind, _, rest = hn.partition(":")
                    if kind in ("s", "e", "d"):
                        ev["blocks"] = ["!=", [kind, rest], ev["var_before"]]
                        cl.blocked.append(ev["blocks"])
                    elif kind == "H":
                        ev["blocks"] = ["!=", ["H"], ev["var_before"]]
                        cl.blocked.append(ev["blocks"])
            try:
                res = s.find_another_solution_for_variable(var)
            except (OSError, SimInterrupt):
                note_block()   # see find_another: the clause precedes the solve() that raised
                raise
            note_block()
            self._record_solution(cl, ev, res)
        elif op == "export_smt2":
            path = step.get("args", {}).get("path", f"{cl.id}.smt2")
            s.export_to_smt2(path)
            ev["outcome"] = "ok"
            ev["path"] = env.fs._norm(path)
        elif op in ("to_json", "to_json_file", "to_df", "to_csv", "to_csv_file", "to_excel"):
            sol = cl.last_solution_obj
            if sol is None:
                ev["outcome"] = "skipped"
                return
            self._export(cl, sol, op, step, ev)
        elif op == "roundtrip":
            self._roundtrip(cl, step, ev)
        elif op == "problem_to_json":
            ev["value"] = cl.problem.to_json(compact=True)
            ev["outcome"] = "ok"
        else:
            raise HarnessError(f"unknown op {op}")

    def _export(self, cl, sol, op, step, ev):
        import os
        env = self.env
        args = step.get("args", {})
        if op == "to_json":
            ev["value"] = sol.to_json(compact=bool(args.get("compact")))
            ev["outcome"] = "ok"
        elif op == "to_json_file":
            path = args.get("path", f"{cl.id}_sol.json")
            r = sol.to_json_file(path, compact=bool(args.get("compact")))
            ev["outcome"] = "ok"
            ev["returned"] = bool(r)
            ev["path"] = env.fs._norm(path)
        elif op == "to_df":
            df = sol.to_df()
            ev["value"] = {"columns": list(df.columns), "rows": [[_plain(v) for v in row] for row in df.itertuples(index=False, name=None)]}
            ev["outcome"] = "ok"
        elif op == "to_csv":
            ev["value"] = sol.to_csv(separator=args.get("sep", ","))
            ev["outcome"] = "ok"
        elif op in ("to_csv_file", "to_excel"):
            scratch = self.plan.get("scratch")
            if not scratch:
                ev["outcome"] = "skipped"
                return
            ext = "csv" if op == "to_csv_file" else "xlsx"
            path = os.path.join(scratch, f"{cl.id}_{ev['seq']}.{ext}")
            if op == "to_csv_file":
                sol.to_csv(csv_filename=path, separator=args.get("sep", ","))
                with open(path, "r", newline="") as fh:
                    ev["value"] = fh.read()
            else:
                sol.to_excel_file(path, colors=bool(args.get("colors")))
                ev["value"] = _read_xlsx(path)
            ev["outcome"] = "ok"

    def _roundtrip(self, cl, step, ev):
        """JSON round trip of a task / worker / cost function definition."""
        ps = self.ps
        args = step["args"]
        kind, eid = args["kind"], args["id"]
        if kind == "task":
            obj = cl.handles.tasks[eid]
            js = obj.to_json(compact=True)
            ev["json"] = js
            # a fresh problem to receive the object (names must be free there)
            pb = ps.SchedulingProblem(name="rt_" + cl.id + str(ev["seq"]))
            new = pb.add_from_json(js)
            ev["value"] = {"before": json.loads(js), "after": json.loads(new.to_json(compact=True)), "type": type(new).__name__,
                           "registered": eid in pb.tasks}
            ev["outcome"] = "ok"
        elif kind == "cost":
            w = cl.handles.workers[eid]
            fn = w.cost
            js = fn.to_json(compact=True)
            ev["json"] = js
            new = type(fn).model_validate_json(js)
            pts = [0, 1, 2, 5, 7]
            ev["value"] = {"before": [fn(x) for x in pts], "after": [new(x) for x in pts], "type": type(new).__name__,
                           "json_after": json.loads(new.to_json(compact=True)), "json_before": json.loads(js)}
            ev["outcome"] = "ok"
        else:
            raise HarnessError(kind)
        # restore the active problem of the client (add_from_json created a new problem)
        import processscheduler.base as b
        b.active_problem = cl.problem


def _plain(v):
    try:
        import numpy as np
        if isinstance(v, np.generic):
            return v.item()
    except Exception:  # pragma: no cover
        pass
    return v


def _read_xlsx(path):
    """{sheet name: {cell ref: value}} + merged ranges, with zipfile + xml.etree only."""
    import zipfile
    import xml.etree.ElementTree as ET
    ns = {"m": "http://schemas.openxmlformats.org/spreadsheetml/2006/main",
          "r": "http://schemas.openxmlformats.org/officeDocument/2006/relationships"}
    out = {}
    with zipfile.ZipFile(path) as z:
        shared = []
        if "xl/sharedStrings.xml" in z.namelist():
            root = ET.fromstring(z.read("xl/sharedStrings.xml"))
            for si in root.findall("m:si", ns):
                shared.append("".join(t.text or "" for t in si.iter("{%s}t" % ns["m"])))
        wb = ET.fromstring(z.read("xl/workbook.xml"))
        rels = ET.fromstring(z.read("xl/_rels/workbook.xml.rels"))
        relmap = {r.get("Id"): r.get("Target") for r in rels}
        for sh in wb.find("m:sheets", ns):
            name = sh.get("name")
            target = relmap[sh.get("{%s}id" % ns["r"])]
            root = ET.fromstring(z.read("xl/" + target.lstrip("/").replace("xl/", "")))
            cells = {}
            for cell in root.iter("{%s}c" % ns["m"]):
                v = cell.find("m:v", ns)
                if v is None:
                    continue
                if cell.get("t") == "s":
                    cells[cell.get("r")] = shared[int(v.text)]
                else:
                    txt = v.text
                    try:
                        cells[cell.get("r")] = int(txt)
                    except ValueError:
                        try:
                            cells[cell.get("r")] = float(txt)
                        except ValueError:
                            cells[cell.get("r")] = txt
            merged = [m.get("ref") for m in root.iter("{%s}mergeCell" % ns["m"])]
            out[name] = {"cells": cells, "merged": merged}
    return out


def run_plan(plan, resolvers=None):
    """Execute a plan in this process and return the raw result (history + counters)."""
    w = World(plan, resolvers)
    return w.run()
