"""Deterministic simulation harness for tpaviot/ProcessScheduler (see /verif/DESIGN.md)."""
SIM_VERSION = 1
