"""Fork-per-run executor, 16-way worker pool, batch driver, replay, evidence.

Process model (DESIGN §2.4): the main process imports processscheduler/z3/pandas once and
never builds a problem; it forks N workers *before* starting any thread; each worker
forks one child per run, reads one JSON blob from it over a pipe under a wall-clock
guard, and forwards it to the main process.  One seed = one exactly repeatable run.
"""
from __future__ import annotations

import faulthandler
import json
import os
import select
import shutil
import signal
import sys
import tempfile
import time
import traceback

from .engine import H, HarnessError

VERIF = os.path.dirname(os.path.dirname(os.path.abspath(__file__)))


# --------------------------------------------------------------------------------------
# environment bootstrap (called by check.py before importing the library)
# --------------------------------------------------------------------------------------
WANT_ENV = {"PYTHONHASHSEED": "0", "OPENBLAS_NUM_THREADS": "1", "OMP_NUM_THREADS": "1", "MKL_NUM_THREADS": "1",
            "MPLBACKEND": "Agg", "PYTHONDONTWRITEBYTECODE": "1"}


def reexec_if_needed():
    """fixed hash seed, single-threaded numeric libraries and - because z3 has
    address-dependent containers - address-space randomisation switched off, so that one
    seed is one execution across invocations too"""
    if any(os.environ.get(k) != v for k, v in WANT_ENV.items()) or os.environ.get("VERIF_NOASLR") != "1":
        env = dict(os.environ)
        env.update(WANT_ENV)
        env["VERIF_NOASLR"] = "1"
        try:
            import ctypes
            ctypes.CDLL(None).personality(0x0040000)  # ADDR_NO_RANDOMIZE, inherited across exec and fork
        except Exception:  # pragma: no cover - best effort
            pass
        os.execve(sys.executable, [sys.executable] + sys.argv, env)


def warm_import():
    """Import the library from /repo's working tree, single-threaded parent."""
    repo = os.environ.get("VERIF_REPO", "/repo")
    if repo not in sys.path:
        sys.path.insert(0, repo)
    if VERIF not in sys.path:
        sys.path.insert(0, VERIF)
    for mod in ("pyarrow", "plotly", "plotly.figure_factory", "matplotlib", "matplotlib.pyplot", "matplotlib.colors"):
        sys.modules.setdefault(mod, None)
    import processscheduler  # noqa: F401
    import processscheduler.solver as s
    if not os.path.abspath(s.__file__).startswith(os.path.abspath(repo)):
        raise HarnessError(f"processscheduler imported from {s.__file__}, not from {repo}")
    ntasks = len(os.listdir("/proc/self/task"))
    if ntasks != 1:
        raise HarnessError(f"parent has {ntasks} OS threads; fork-per-run needs a single-threaded parent")


# --------------------------------------------------------------------------------------
# one run in a forked child
# --------------------------------------------------------------------------------------
def _child_main(fn, arg, wfd, timeout):
    try:
        if os.environ.get("VERIF_DEBUG"):
            faulthandler.enable()
            faulthandler.dump_traceback_later(max(5, timeout - 2), exit=False)
        out = fn(arg)
        data = json.dumps(out, default=_json_default).encode()
    except BaseException as exc:  # noqa: BLE001
        data = json.dumps({"status": "harness_error", "error": f"{type(exc).__name__}: {exc}",
                           "trace": traceback.format_exc()[-2000:]}).encode()
    try:
        with os.fdopen(wfd, "wb") as w:
            w.write(data)
    finally:
        os._exit(0)


def _json_default(o):
    if isinstance(o, (set, frozenset)):
        return sorted(o)
    if isinstance(o, tuple):
        return list(o)
    try:
        from fractions import Fraction
        if isinstance(o, Fraction):
            return str(o)
    except Exception:  # pragma: no cover
        pass
    return str(o)


FRAME = 4096   # <= PIPE_BUF: a frame is written atomically, so a read of one frame never returns a part of it


def _read_exact(fd, n):
    """frame by frame: the number and the sizes of the pieces - hence the allocations made while
    reading - depend on n only, not on how the writer and the reader happen to interleave"""
    chunks = []
    got = 0
    while got < n:
        b = os.read(fd, min(FRAME, n - got))
        if not b:
            raise EOFError("pipe closed")
        chunks.append(b)
        got += len(b)
    return b"".join(chunks)


class Zygote:
    """A pristine template process.  Every run is forked from one of these, never from a
    process with a history: z3's behaviour depends on the addresses its allocator hands out,
    and a child inherits the allocator state of whoever forks it.  (Measured: the same seed,
    forked three times in a row from the long-lived main process, gave two different
    models.)  A zygote does nothing between two forks except reading one byte and writing
    two 8-byte integers, so its memory image stays the same; all zygotes are created
    back-to-back right after the warm import.  One run at a time per zygote.

    pipes: ctl (owner -> zygote: "go"), st (zygote -> owner: pid, then wait status),
           job (owner -> child), res (child -> owner); job/res messages are length-prefixed.
    """

    def __init__(self):
        import struct
        self._struct = struct
        self.job_r, self.job_w = os.pipe()
        self.res_r, self.res_w = os.pipe()
        self.ctl_r, self.ctl_w = os.pipe()
        self.st_r, self.st_w = os.pipe()
        sys.stdout.flush()
        sys.stderr.flush()
        pid = os.fork()
        if pid == 0:
            try:
                self._loop()
            finally:
                os._exit(0)
        self.pid = pid

    # ---- inside the zygote -------------------------------------------------------------
    def _loop(self):
        import gc
        gc.disable()
        # keep only this side's ends: with the owner's ends closed here, the zygote sees EOF
        # on its control pipe - and exits - as soon as its owner(s) are gone
        for fd in (self.ctl_w, self.st_r, self.job_w, self.res_r):
            os.close(fd)
        pack = self._struct.pack
        while True:
            b = os.read(self.ctl_r, 1)
            if not b or b == b"q":
                os._exit(0)
            pid = os.fork()
            if pid == 0:
                gc.enable()
                self._child()
            os.write(self.st_w, pack("q", pid))
            _, status = os.waitpid(pid, 0)
            os.write(self.st_w, pack("q", status))

    def _child(self):
        try:
            n = self._struct.unpack("I", _read_exact(self.job_r, 4))[0]
            job = json.loads(_read_exact(self.job_r, n))
        except BaseException:  # noqa: BLE001
            os._exit(3)
        timeout = job.get("timeout", 90)
        try:
            if os.environ.get("VERIF_DEBUG"):
                faulthandler.enable()
                faulthandler.dump_traceback_later(max(5, timeout - 2), exit=False)
            out = execute(job)
            data = json.dumps(out, default=_json_default).encode()
        except BaseException as exc:  # noqa: BLE001
            data = json.dumps({"status": "harness_error", "error": f"{type(exc).__name__}: {exc}",
                               "trace": traceback.format_exc()[-2000:]}).encode()
        try:
            os.write(self.res_w, self._struct.pack("I", len(data)))
            view = memoryview(data)
            while view:
                k = os.write(self.res_w, view[: 1 << 16])
                view = view[k:]
        finally:
            os._exit(0)

    # ---- owner side ------------------------------------------------------------------------
    def _drain(self, fd):
        import fcntl
        fl = fcntl.fcntl(fd, fcntl.F_GETFL)
        fcntl.fcntl(fd, fcntl.F_SETFL, fl | os.O_NONBLOCK)
        try:
            while True:
                try:
                    if not os.read(fd, 1 << 16):
                        break
                except BlockingIOError:
                    break
        finally:
            fcntl.fcntl(fd, fcntl.F_SETFL, fl)

    def run(self, job, timeout=90):
        st = self._struct
        job = dict(job)
        job["timeout"] = timeout
        payload = json.dumps(job).encode()
        os.write(self.ctl_w, b"g")
        pid = st.unpack("q", _read_exact(self.st_r, 8))[0]
        # the child is now blocked reading its job
        # the length, then the payload in frames of FRAME bytes, one write each (see _read_exact)
        frames = [st.pack("I", len(payload))] + [payload[i:i + FRAME] for i in range(0, len(payload), FRAME)]
        frames.reverse()
        view = frames   # truthy while something is left to send
        deadline = time.monotonic() + timeout
        status = None
        buf = b""
        need = None
        killed = False
        result = None
        while True:
            left = deadline - time.monotonic()
            if left <= 0 and not killed:
                killed = True
                try:
                    os.kill(pid, signal.SIGKILL)
                except ProcessLookupError:
                    pass
            wl = [self.job_w] if view and status is None else []
            r, w, _ = select.select([self.res_r, self.st_r], wl, [], 1.0 if not killed else 5.0)
            if w:
                try:
                    fr = frames[-1]
                    k = os.write(self.job_w, fr)
                    if k == len(fr):
                        frames.pop()
                    else:  # pragma: no cover - a pipe takes a frame of <= PIPE_BUF bytes whole
                        frames[-1] = fr[k:]
                except BlockingIOError:
                    pass
            if self.res_r in r:
                buf += os.read(self.res_r, 1 << 20)
                if need is None and len(buf) >= 4:
                    need = st.unpack("I", buf[:4])[0]
                if need is not None and len(buf) >= 4 + need and result is None:
                    result = buf[4:4 + need]
            if self.st_r in r:
                status = st.unpack("q", _read_exact(self.st_r, 8))[0]
            if status is not None:
                # the child is gone: take whatever complete result is already in the pipe
                if result is None:
                    rr, _, _ = select.select([self.res_r], [], [], 0)
                    if rr:
                        continue
                break
        if result is None or killed or view:
            # leftovers of an aborted exchange must not reach the next run
            self._drain(self.res_r)
            self._drain(self.job_r)
        if killed:
            return {"status": "harness_error", "error": f"wall-clock kill after {timeout}s"}
        if result is None:
            if os.WIFSIGNALED(status) and os.WTERMSIG(status) in (signal.SIGSEGV, signal.SIGABRT, signal.SIGBUS):
                return {"status": "crashed", "signal": os.WTERMSIG(status), "error": f"child killed by signal {os.WTERMSIG(status)} (engine crash)"}
            if os.WIFEXITED(status) and 101 <= os.WEXITSTATUS(status) <= 114:
                # libz3 called exit() with one of its own error codes (e.g. 114 "unexpected code was reached")
                return {"status": "crashed", "signal": -os.WEXITSTATUS(status), "error": f"libz3 exited the process with code {os.WEXITSTATUS(status)} (engine crash)"}
            return {"status": "harness_error", "error": f"child died without result (wait status {status})"}
        try:
            return json.loads(result)
        except ValueError as exc:
            return {"status": "harness_error", "error": f"bad child output: {exc}"}

    def close(self):
        try:
            os.write(self.ctl_w, b"q")
        except OSError:
            pass
        try:
            os.waitpid(self.pid, 0)
        except ChildProcessError:
            pass


ZYGOTES = []       # created by make_zygotes() right after the warm import
MAIN_ZYGOTE = None


def make_zygotes(n):
    """n zygotes for pool workers + one for runs issued by the main process itself"""
    global MAIN_ZYGOTE
    for _ in range(n + 1):
        ZYGOTES.append(Zygote())
    MAIN_ZYGOTE = ZYGOTES.pop()


def run_in_child(fn, arg, timeout=90):
    """run one job in a child forked from the main process's zygote (fn is always execute)"""
    if MAIN_ZYGOTE is None:
        raise HarnessError("zygotes not created (call runner.make_zygotes after warm_import)")
    return MAIN_ZYGOTE.run(arg, timeout)


# --------------------------------------------------------------------------------------
# what a child does
# --------------------------------------------------------------------------------------
def execute(job):
    """job: {"pid", "run_seed", "tier"} or {"pid", "plan": {...}}; plus flags."""
    from oracles import get_check
    from .world import run_plan
    check = get_check(job["pid"])
    plan = job.get("plan")
    if plan is None:
        plan = check.plan(job["run_seed"], job.get("tier", "quick"))
    scratch = None
    if plan.get("needs_scratch"):
        scratch = tempfile.mkdtemp(prefix="verif_run_")
        plan = dict(plan)
        plan["scratch"] = scratch
    try:
        t0 = time.perf_counter()
        result = check.run_world(plan, run_plan)
        verdict = check.judge(plan, result)
        wall = time.perf_counter() - t0
    finally:
        if scratch:
            shutil.rmtree(scratch, ignore_errors=True)
    out = {
        "status": "ok",
        "run_seed": plan["run_seed"],
        "digest": result["digest"],
        "verdict": verdict.to_json(),
        "faults": result["faults"],
        "fs_fired": len(result["fs_fired"]),
        "steer_admitted": result["steer_admitted"],
        "steer_refused": result["steer_refused"],
        "checks": result["checks"],
        "sim_seconds": result["sim_seconds"],
        "inconclusive": result["inconclusive"],
        "build_rejected": result["build_rejected"],
        "uuid_collisions": result["uuid_collisions"],
        "stub_parallel": result["stub_parallel"],
        "real_timeout_guard": result["real_timeout_guard"],
        "wall": wall,
        "n_events": len(result["events"]),
    }
    if job.get("want_plan") or verdict.violations:
        cp = dict(plan)
        cp.pop("scratch", None)
        out["plan"] = cp
        conc = dict(cp)
        conc["script"] = result["concrete_script"]
        conc["concrete"] = True
        out["concrete_plan"] = conc
    if job.get("want_events"):
        out["events"] = result["events"]
        out["fs_files"] = result["fs_files"]
    return out


def run_job(job, timeout=60):
    """run_in_child(execute, job) + mapping of an engine crash (SIGSEGV in libz3) to a
    verdict: the crash is an observable outcome of the system, judged by the property's
    check (most properties: no schedule was returned, nothing to judge)."""
    res = run_in_child(execute, job, timeout)
    if res.get("status") == "harness_error" and str(res.get("error", "")).startswith("wall-clock kill"):
        # z3 honours neither rlimit nor its timeout inside some non-linear procedures.  For a
        # spec whose encoding is non-linear the hang is the engine's: the run is inconclusive
        # (counted, excluded from digest comparisons).  For a linear spec it stays a harness error.
        from oracles import get_check
        from .gen import has_nonlinear
        check = get_check(job["pid"])
        plan = job.get("plan") or check.plan(job["run_seed"], job.get("tier", "quick"))
        specs = [c["spec"] for c in plan["clients"] if isinstance(c.get("spec"), dict)]
        if any(has_nonlinear(sp) for sp in specs):
            from oracles.base import Verdict
            v = Verdict()
            v.probe("engine_hang_nonlinear(wall-clock kill)")
            return {"status": "ok", "run_seed": plan["run_seed"], "digest": "hang", "verdict": v.to_json(), "faults": {"engine-hang": 1}, "fs_fired": 0,
                    "steer_admitted": 0, "steer_refused": 0, "checks": 0, "sim_seconds": 0.0, "inconclusive": 1, "build_rejected": None,
                    "uuid_collisions": 0, "stub_parallel": False, "real_timeout_guard": 1, "wall": float(timeout), "n_events": 0}
        return res
    if res.get("status") != "crashed":
        return res
    from oracles import get_check
    check = get_check(job["pid"])
    plan = job.get("plan") or check.plan(job["run_seed"], job.get("tier", "quick"))
    verdict = check.judge_crash(plan, res["signal"])
    if verdict is None:
        return {"status": "harness_error", "error": res["error"], "run_seed": plan["run_seed"]}
    out = {"status": "ok", "run_seed": plan["run_seed"], "digest": "crash:%d" % res["signal"], "verdict": verdict.to_json(),
           "faults": {"engine-crash": 1}, "fs_fired": 0, "steer_admitted": 0, "steer_refused": 0, "checks": 0, "sim_seconds": 0.0,
           "inconclusive": 0, "build_rejected": None, "uuid_collisions": 0, "stub_parallel": False, "real_timeout_guard": 0, "wall": 0.0, "n_events": 0}
    if job.get("want_plan") or verdict.violations:
        out["plan"] = plan
        out["concrete_plan"] = plan
    if job.get("want_events"):
        out["events"] = []
        out["fs_files"] = {}
    return out


# --------------------------------------------------------------------------------------
# worker pool
# --------------------------------------------------------------------------------------
class Pool:
    """N supervisors forked from the main process; supervisor w drives zygote w (created
    earlier by make_zygotes), applies the wall-clock guard and forwards results."""

    def __init__(self, nworkers):
        if len(ZYGOTES) < nworkers:
            raise HarnessError(f"only {len(ZYGOTES)} zygotes for {nworkers} workers")
        self.n = nworkers
        self.workers = []  # (pid, job_w, res_r)
        for w in range(nworkers):
            job_r, job_w = os.pipe()
            res_r, res_w = os.pipe()
            sys.stdout.flush()
            sys.stderr.flush()
            pid = os.fork()
            if pid == 0:
                os.close(job_w)
                os.close(res_r)
                for (_, jw, rr) in self.workers:
                    try:
                        os.close(jw)
                        os.close(rr)
                    except OSError:
                        pass
                self._worker_loop(job_r, res_w, ZYGOTES[w])
                os._exit(0)
            os.close(job_r)
            os.close(res_w)
            self.workers.append((pid, job_w, res_r))

    @staticmethod
    def _worker_loop(job_r, res_w, zygote):
        global MAIN_ZYGOTE
        MAIN_ZYGOTE = zygote   # run_job() inside this supervisor goes through its own zygote
        jf = os.fdopen(job_r, "r")
        rf = os.fdopen(res_w, "w")
        for line in jf:
            line = line.strip()
            if not line:
                continue
            job = json.loads(line)
            if job.get("cmd") == "stop":
                break
            res = run_job(job, timeout=job.get("timeout", 90))
            res["job_id"] = job.get("job_id")
            if "run_seed" not in res:
                res["run_seed"] = job.get("run_seed")
            rf.write(json.dumps(res, default=_json_default) + "\n")
            rf.flush()

    def map(self, jobs, on_result, max_wall=None):
        """Dispatch jobs dynamically (one outstanding job per worker)."""
        jobs = list(jobs)
        nxt = 0
        outstanding = {}
        bufs = {rr: b"" for (_, _, rr) in self.workers}
        t0 = time.monotonic()
        stopped_early = False

        def feed(widx):
            nonlocal nxt
            if nxt >= len(jobs):
                return False
            if max_wall is not None and time.monotonic() - t0 > max_wall:
                return False
            job = jobs[nxt]
            nxt += 1
            _, jw, rr = self.workers[widx]
            os.write(jw, (json.dumps(job) + "\n").encode())
            outstanding[rr] = widx
            return True

        for w in range(self.n):
            feed(w)
        while outstanding:
            r, _, _ = select.select(list(outstanding.keys()), [], [], 5.0)
            for rr in r:
                b = os.read(rr, 1 << 20)
                if not b:
                    raise HarnessError("a pool worker died")
                bufs[rr] += b
                while b"\n" in bufs[rr]:
                    line, bufs[rr] = bufs[rr].split(b"\n", 1)
                    widx = outstanding.pop(rr)
                    on_result(json.loads(line))
                    feed(widx)
        if nxt < len(jobs):
            stopped_early = True
        return nxt, stopped_early

    def close(self):
        for pid, jw, rr in self.workers:
            try:
                os.write(jw, b'{"cmd":"stop"}\n')
                os.close(jw)
            except OSError:
                pass
        for pid, jw, rr in self.workers:
            try:
                os.waitpid(pid, 0)
            except ChildProcessError:
                pass
            try:
                os.close(rr)
            except OSError:
                pass
        self.workers = []


def run_seed_for(verif_seed, pid, i):
    return H("run", verif_seed, pid, i) % (2 ** 53)
