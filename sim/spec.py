"""Problem-spec language (plain JSON) and the builder spec -> real processscheduler objects.

The builder only calls public constructors / ``add_required_resource``.  It returns a
``Handles`` object: the real objects by spec id and the z3 unknowns by *handle name*:

    s:<t> e:<t> d:<t> x:<t>        task start / end / duration (variable) / scheduled (optional)
    lo:<w>:<t> hi:<w>:<t>          busy interval of (unit) worker w for task t
    sel:<sid>:<w>                  selection Boolean (sid = select id, or "<cw>@<t>" for the
                                   implicit selection a cumulative worker creates per task)
    app:<cid>                      applied flag of an optional constraint
    ind:<iid>                      indicator unknown
    H                              horizon unknown
    lvl:<b>:<i> lct:<b>:<i>        buffer level / change-time unknowns
"""
from __future__ import annotations

import copy

import z3


class BuildRejected(Exception):
    """A constructor refused the spec (recorded, not a violation)."""


# --------------------------------------------------------------------------------------
# expression language
# --------------------------------------------------------------------------------------
_ARITH = {"+", "-", "*"}
_CMP = {"<", "<=", "==", "!=", ">=", ">"}


def expr_to_z3(e, h):
    if isinstance(e, bool):
        return z3.BoolVal(e)
    if isinstance(e, int):
        return e
    op = e[0]
    if op == "py":          # a plain Python bool handed to the library as is
        return bool(e[1])
    if op == "s":
        return h.tasks[e[1]]._start
    if op == "e":
        return h.tasks[e[1]]._end
    if op == "d":
        t = h.tasks[e[1]]
        return t._duration if hasattr(t, "_duration") else t.duration
    if op == "x":
        return h.tasks[e[1]]._scheduled
    if op == "ind":
        return h.indicators[e[1]]._indicator_variable
    if op == "H":
        return h.problem._horizon
    if op in _ARITH:
        a, b = expr_to_z3(e[1], h), expr_to_z3(e[2], h)
        return a + b if op == "+" else a - b if op == "-" else a * b
    if op in _CMP:
        a, b = expr_to_z3(e[1], h), expr_to_z3(e[2], h)
        return {"<": lambda: a < b, "<=": lambda: a <= b, "==": lambda: a == b,
                "!=": lambda: a != b, ">=": lambda: a >= b, ">": lambda: a > b}[op]()
    if op == "and":
        return z3.And([expr_to_z3(x, h) for x in e[1:]])
    if op == "or":
        return z3.Or([expr_to_z3(x, h) for x in e[1:]])
    if op == "not":
        return z3.Not(expr_to_z3(e[1], h))
    raise ValueError(f"bad expr {e!r}")


def expr_tasks(e, acc=None):
    """ids of tasks whose times an expression reads (not via 'x')."""
    if acc is None:
        acc = set()
    if isinstance(e, list):
        if e[0] in ("s", "e", "d"):
            acc.add(e[1])
        elif e[0] in ("x", "ind", "H"):
            pass
        else:
            for x in e[1:]:
                expr_tasks(x, acc)
    return acc


def expr_mentions(e, acc=None):
    """all task ids mentioned, including through 'x'."""
    if acc is None:
        acc = set()
    if isinstance(e, list):
        if e[0] in ("s", "e", "d", "x"):
            acc.add(e[1])
        elif e[0] in ("ind", "H"):
            pass
        else:
            for x in e[1:]:
                expr_mentions(x, acc)
    return acc


def expr_inds(e, acc=None):
    if acc is None:
        acc = set()
    if isinstance(e, list):
        if e[0] == "ind":
            acc.add(e[1])
        elif e[0] not in ("s", "e", "d", "x", "H"):
            for x in e[1:]:
                expr_inds(x, acc)
    return acc


# --------------------------------------------------------------------------------------
class Handles:
    def __init__(self):
        self.problem = None
        self.tasks = {}
        self.workers = {}       # plain workers by id
        self.cumulative = {}
        self.selects = {}
        self.resources = {}     # any by id
        self.buffers = {}
        self.constraints = {}   # top-level and nested by id
        self.indicators = {}
        self.ind_name = {}      # spec id -> name reported in solution.indicators
        self.objectives = []
        self.obj_ind_names = [] # per objective: reported name of its target indicator (or None)
        self.vars = {}
        self.spec = None
        self.dynamic_pairs = set()  # (worker id, task id) with a dynamic assignment
        self.steer_extra = []   # names of additional handle vars greedy may pin (e.g. indicators)

    # ---- greedy steering support --------------------------------------------------------
    def time_values(self):
        spec = self.spec
        hz = spec.get("horizon")
        if hz is None:
            hz = 3
            for t in spec["tasks"]:
                hz += t.get("duration") or t.get("max") or (t.get("min", 0) + 2)
            hz = min(hz, 24)
        vals = set(range(-2, hz + 2))
        return sorted(vals), hz

    def greedy_candidates(self, rng, steer):
        """[(handle name, value)] in a keyed random order."""
        groups = steer.get("groups", ["time", "flag", "busy"])
        vals, hz = self.time_values()
        names = []
        for name in self.vars:
            kind = name.split(":", 1)[0]
            if kind in ("s", "e", "d") and "time" in groups:
                names.append(name)
            elif kind in ("x", "sel", "app") and "flag" in groups:
                names.append(name)
            elif kind in ("lo", "hi") and "busy" in groups:
                names.append(name)
            elif kind == "H" and "horizon" in groups:
                names.append(name)
            elif kind == "ind" and "ind" in groups:
                names.append(name)
            elif kind in ("lvl",) and "level" in groups:
                names.append(name)
        only = steer.get("only")
        if only:
            names = [n for n in names if n in only]
        names.sort()
        rng.shuffle(names)
        bias = steer.get("bias")  # None | "low" | "high" | "edge"
        out = []
        for name in names:
            kind = name.split(":", 1)[0]
            if kind in ("x", "sel", "app"):
                out.append((name, rng.random() < steer.get("p_true", 0.5)))
            elif kind == "d":
                out.append((name, rng.choice([-1, 0, 1, 2, 3, 4, 5, 6, hz])))
            elif kind == "ind" or kind == "lvl":
                out.append((name, rng.randint(-3, 12)))
            else:
                if bias == "high":
                    v = rng.choice(vals[len(vals) // 2:])
                elif bias == "low":
                    v = rng.choice(vals[: len(vals) // 2 + 1])
                elif bias == "edge":
                    v = rng.choice([-2, -1, 0, 1, hz - 1, hz, hz + 1])
                else:
                    v = rng.choice(vals)
                out.append((name, v))
        return out


def _cost(ps, c):
    if c is None:
        return None
    if "const" in c:
        return ps.ConstantFunction(value=c["const"])
    if "linear" in c:
        return ps.LinearFunction(slope=c["linear"][0], intercept=c["linear"][1])
    if "poly" in c:
        return ps.PolynomialFunction(coefficients=list(c["poly"]))
    raise ValueError(c)


def _ivs(lst):
    return [tuple(x) for x in lst]


def build(spec, ps=None) -> Handles:
    """Build the real problem.  Raises BuildRejected when a constructor refuses."""
    if ps is None:
        import processscheduler as ps
    h = Handles()
    h.spec = spec
    try:
        _build(spec, ps, h)
    except BuildRejected:
        raise
    except (AssertionError, ValueError, TypeError, KeyError, AttributeError, z3.Z3Exception) as exc:
        # pydantic.ValidationError is a ValueError
        raise BuildRejected(f"{type(exc).__name__}: {str(exc)[:300]}") from exc
    return h


def _build(spec, ps, h):
    kw = {"name": spec.get("name", "p")}
    if spec.get("horizon") is not None:
        kw["horizon"] = spec["horizon"]
    if spec.get("delta_time_s") is not None:
        from datetime import timedelta
        kw["delta_time"] = timedelta(seconds=spec["delta_time_s"])
    if spec.get("start_time") is not None:
        from datetime import datetime
        kw["start_time"] = datetime.fromisoformat(spec["start_time"])
    pb = ps.SchedulingProblem(**kw)
    h.problem = pb
    h.vars["H"] = pb._horizon

    # ---- tasks -------------------------------------------------------------------------
    for t in spec["tasks"]:
        tk = {"name": t["id"]}
        if t.get("optional"):
            tk["optional"] = True
        if t.get("release") is not None:
            tk["release_date"] = t["release"]
        if t.get("due") is not None:
            tk["due_date"] = t["due"]
            tk["due_date_is_deadline"] = bool(t.get("deadline", True))
        if t.get("priority") is not None:
            tk["priority"] = t["priority"]
        if t.get("work"):
            tk["work_amount"] = t["work"]
        kind = t["kind"]
        if kind == "fixed":
            obj = ps.FixedDurationTask(duration=t["duration"], **tk)
        elif kind == "zero":
            obj = ps.ZeroDurationTask(**tk)
        elif kind == "variable":
            if t.get("min") is not None:
                tk["min_duration"] = t["min"]
            if t.get("max") is not None:
                tk["max_duration"] = t["max"]
            if t.get("allowed") is not None:
                tk["allowed_durations"] = list(t["allowed"])
            obj = ps.VariableDurationTask(**tk)
        else:
            raise ValueError(kind)
        h.tasks[t["id"]] = obj
        h.vars[f"s:{t['id']}"] = obj._start
        h.vars[f"e:{t['id']}"] = obj._end
        if kind == "variable":
            h.vars[f"d:{t['id']}"] = obj._duration
        if not isinstance(obj._scheduled, bool):
            h.vars[f"x:{t['id']}"] = obj._scheduled

    # ---- resources ---------------------------------------------------------------------
    for w in spec.get("workers", []):
        wk = {"name": w["id"]}
        if w.get("productivity") is not None:
            wk["productivity"] = w["productivity"]
        if w.get("cost") is not None:
            wk["cost"] = _cost(ps, w["cost"])
        obj = ps.Worker(**wk)
        h.workers[w["id"]] = obj
        h.resources[w["id"]] = obj
    for c in spec.get("cumulative", []):
        ck = {"name": c["id"], "size": c["size"]}
        if c.get("productivity") is not None:
            ck["productivity"] = c["productivity"]
        if c.get("cost") is not None:
            ck["cost"] = _cost(ps, c["cost"])
        obj = ps.CumulativeWorker(**ck)
        h.cumulative[c["id"]] = obj
        h.resources[c["id"]] = obj
    for s in spec.get("selects", []):
        obj = ps.SelectWorkers(
            name=s["id"],
            list_of_workers=[h.resources[w] for w in s["workers"]],
            nb_workers_to_select=s.get("nb", 1),
            kind=s.get("kind", "exact"),
        )
        h.selects[s["id"]] = obj
        h.resources[s["id"]] = obj
        for wobj, b in obj._selection_dict.items():
            h.vars[f"sel:{s['id']}:{wobj.name}"] = b

    # ---- assignments -------------------------------------------------------------------
    for a in spec.get("assign", []):
        task = h.tasks[a["task"]]
        res = h.resources[a["resource"]]
        n_sel_before = len(h.problem.select_workers)
        kw = {}
        if a.get("dynamic"):
            kw["dynamic"] = True
        if a.get("delay_in"):
            kw["delay_in"] = a["delay_in"]
        if a.get("early_out"):
            kw["early_out"] = a["early_out"]
        task.add_required_resource(res, **kw)
        if a["resource"] in h.cumulative:
            # the implicit selection created for this use
            new = list(h.problem.select_workers.values())[n_sel_before:]
            for sobj in new:
                sid = f"{a['resource']}@{a['task']}"
                h.selects[sid] = sobj
                for wobj, b in sobj._selection_dict.items():
                    h.vars[f"sel:{sid}:{wobj.name}"] = b
        if a.get("dynamic") and a["resource"] in h.workers:
            h.dynamic_pairs.add((a["resource"], a["task"]))
    for wname, wobj in h.problem.workers.items():
        for task, (lo, hi) in wobj._busy_intervals.items():
            h.vars[f"lo:{wname}:{task.name}"] = lo
            h.vars[f"hi:{wname}:{task.name}"] = hi

    # ---- buffers -----------------------------------------------------------------------
    for b in spec.get("buffers", []):
        bk = {"name": b["id"]}
        for src, dst in (("initial", "initial_level"), ("final", "final_level"), ("lower", "lower_bound"), ("upper", "upper_bound")):
            if b.get(src) is not None:
                bk[dst] = b[src]
        cls = ps.ConcurrentBuffer if b.get("concurrent") else ps.NonConcurrentBuffer
        h.buffers[b["id"]] = cls(**bk)

    # ---- constraints (stage 1: everything that is not an indicator constraint) -----------
    later = []
    for c in spec.get("constraints", []):
        if c["kind"] in ("IndicatorTarget", "IndicatorBounds") or _needs_indicator(c):
            later.append(c)
        elif c["kind"] == "ForceApplyNOptionalConstraints":
            later.append(c)
        else:
            _build_constraint(c, ps, h)

    for bid, bobj in h.buffers.items():
        for i, v in enumerate(bobj._buffer_levels):
            h.vars[f"lvl:{bid}:{i}"] = v
        for i, v in enumerate(bobj._level_changes_time):
            h.vars[f"lct:{bid}:{i}"] = v

    # ---- indicators --------------------------------------------------------------------
    for i in spec.get("indicators", []):
        obj = _build_indicator(i, ps, h)
        h.indicators[i["id"]] = obj
        h.ind_name[i["id"]] = obj.name
        h.vars[f"ind:{i['id']}"] = obj._indicator_variable

    for c in later:
        _build_constraint(c, ps, h)

    # ---- objectives --------------------------------------------------------------------
    for o in spec.get("objectives", []):
        before = set(id(x) for x in h.problem.indicators.values())
        obj = _build_objective(o, ps, h)
        h.objectives.append(obj)
        tgt = getattr(obj, "target", None)
        h.obj_ind_names.append(tgt.name if hasattr(tgt, "_indicator_variable") else None)
    # the unknown the optimisers work on: the single objective's target, or - several
    # objectives - the weighted sum the solver names "EquivalentSingleObjective"
    if len(h.objectives) == 1:
        h.vars["OBJ"] = h.objectives[0]._target
    elif len(h.objectives) > 1:
        h.vars["OBJ"] = z3.Int("EquivalentSingleObjective")


def _needs_indicator(c):
    """does a (possibly nested) constraint spec read an indicator?"""
    for key in ("expr", "cond"):
        if key in c and expr_inds(c[key]):
            return True
    for key in ("arg", "a", "b"):
        if isinstance(c.get(key), dict) and _needs_indicator(c[key]):
            return True
    for key in ("args", "then", "else"):
        for x in c.get(key, []) or []:
            if isinstance(x, dict) and _needs_indicator(x):
                return True
    return False


def _operand(x, ps, h):
    """nested operand: constraint spec or {'expr': ...}"""
    if "kind" in x:
        return _build_constraint(x, ps, h)
    return expr_to_z3(x["expr"], h)


def _build_constraint(c, ps, h):
    k = c["kind"]
    kw = {"name": c["id"]}
    if c.get("optional"):
        kw["optional"] = True
    T = h.tasks
    R = h.resources
    if k in ("TaskStartAt", "TaskEndAt"):
        obj = getattr(ps, k)(task=T[c["task"]], value=c["value"], **kw)
    elif k in ("TaskStartAfter", "TaskEndBefore"):
        obj = getattr(ps, k)(task=T[c["task"]], value=c["value"], kind=c.get("mode", "lax"), **kw)
    elif k == "TaskPrecedence":
        # an operand is a task id, or (precedence between groups) the id of a task-group constraint
        before = T[c["before"]] if c["before"] in T else h.constraints[c["before"]]
        after = T[c["after"]] if c["after"] in T else h.constraints[c["after"]]
        obj = ps.TaskPrecedence(task_before=before, task_after=after, offset=c.get("offset", 0), kind=c.get("mode", "lax"), **kw)
    elif k in ("TasksStartSynced", "TasksEndSynced", "TasksDontOverlap"):
        obj = getattr(ps, k)(task_1=T[c["t1"]], task_2=T[c["t2"]], **kw)
    elif k == "TasksContiguous":
        obj = ps.TasksContiguous(list_of_tasks=[T[t] for t in c["tasks"]], **kw)
    elif k in ("UnorderedTaskGroup", "OrderedTaskGroup"):
        if c.get("interval") is not None:
            kw["time_interval"] = tuple(c["interval"])
        if c.get("length") is not None:
            kw["time_interval_length"] = c["length"]
        if k == "OrderedTaskGroup":
            kw["kind"] = c.get("mode", "lax")
        obj = getattr(ps, k)(list_of_tasks=[T[t] for t in c["tasks"]], **kw)
    elif k == "ScheduleNTasksInTimeIntervals":
        obj = ps.ScheduleNTasksInTimeIntervals(list_of_tasks=[T[t] for t in c["tasks"]], nb_tasks_to_schedule=c["nb"],
                                               list_of_time_intervals=_ivs(c["intervals"]), kind=c.get("mode", "exact"), **kw)
    elif k == "OptionalTaskForceSchedule":
        obj = ps.OptionalTaskForceSchedule(task=T[c["task"]], to_be_scheduled=bool(c["flag"]), **kw)
    elif k == "OptionalTaskConditionSchedule":
        obj = ps.OptionalTaskConditionSchedule(task=T[c["task"]], condition=expr_to_z3(c["cond"], h), **kw)
    elif k == "OptionalTasksDependency":
        obj = ps.OptionalTasksDependency(task_1=T[c["t1"]], task_2=T[c["t2"]], **kw)
    elif k == "ForceScheduleNOptionalTasks":
        obj = ps.ForceScheduleNOptionalTasks(list_of_optional_tasks=[T[t] for t in c["tasks"]], nb_tasks_to_schedule=c["nb"], kind=c.get("mode", "exact"), **kw)
    elif k in ("TaskLoadBuffer", "TaskUnloadBuffer"):
        obj = getattr(ps, k)(task=T[c["task"]], buffer=h.buffers[c["buffer"]], quantity=c["quantity"], **kw)
    elif k == "WorkLoad":
        obj = ps.WorkLoad(resource=R[c["resource"]], dict_time_intervals_and_bound={(a, b): n for a, b, n in c["intervals"]}, kind=c.get("mode", "max"), **kw)
    elif k in ("ResourceUnavailable", "ResourceInterrupted"):
        obj = getattr(ps, k)(resource=R[c["resource"]], list_of_time_intervals=_ivs(c["intervals"]), **kw)
    elif k in ("ResourcePeriodicallyUnavailable", "ResourcePeriodicallyInterrupted"):
        pk = {"period": c["period"]}
        for f in ("start", "offset", "end"):
            if c.get(f) is not None:
                pk[f] = c[f]
        obj = getattr(ps, k)(resource=R[c["resource"]], list_of_time_intervals=_ivs(c["intervals"]), **pk, **kw)
    elif k == "ResourceNonDelay":
        obj = ps.ResourceNonDelay(resource=R[c["resource"]], **kw)
    elif k == "ResourceTasksDistance":
        if c.get("intervals") is not None:
            kw["list_of_time_intervals"] = _ivs(c["intervals"])
        obj = ps.ResourceTasksDistance(resource=R[c["resource"]], distance=c["distance"], mode=c.get("mode", "exact"), **kw)
    elif k in ("SameWorkers", "DistinctWorkers"):
        obj = getattr(ps, k)(select_workers_1=h.selects[c["s1"]], select_workers_2=h.selects[c["s2"]], **kw)
    elif k == "Not":
        obj = ps.Not(constraint=_operand(c["arg"], ps, h), **kw)
    elif k in ("Or", "And"):
        obj = getattr(ps, k)(list_of_constraints=[_operand(x, ps, h) for x in c["args"]], **kw)
    elif k == "Xor":
        obj = ps.Xor(constraint_1=_operand(c["a"], ps, h), constraint_2=_operand(c["b"], ps, h), **kw)
    elif k == "Implies":
        obj = ps.Implies(condition=expr_to_z3(c["cond"], h), list_of_constraints=[_operand(x, ps, h) for x in c["args"]], **kw)
    elif k == "IfThenElse":
        obj = ps.IfThenElse(condition=expr_to_z3(c["cond"], h), then_list_of_constraints=[_operand(x, ps, h) for x in c["then"]],
                            else_list_of_constraints=[_operand(x, ps, h) for x in c["else"]], **kw)
    elif k == "ConstraintFromExpression":
        obj = ps.ConstraintFromExpression(expression=expr_to_z3(c["expr"], h), **kw)
    elif k == "ForceApplyNOptionalConstraints":
        obj = ps.ForceApplyNOptionalConstraints(list_of_optional_constraints=[h.constraints[x] for x in c["constraints"]],
                                                nb_constraints_to_apply=c["nb"], kind=c.get("mode", "exact"), **kw)
    elif k == "IndicatorTarget":
        obj = ps.IndicatorTarget(indicator=h.indicators[c["indicator"]], value=c["value"], **kw)
    elif k == "IndicatorBounds":
        bk = {}
        if c.get("lower") is not None:
            bk["lower_bound"] = c["lower"]
        if c.get("upper") is not None:
            bk["upper_bound"] = c["upper"]
        obj = ps.IndicatorBounds(indicator=h.indicators[c["indicator"]], **bk, **kw)
    else:
        raise ValueError(f"unknown constraint kind {k}")
    h.constraints[c["id"]] = obj
    if not isinstance(obj._applied, bool):
        h.vars[f"app:{c['id']}"] = obj._applied
    return obj


def _build_indicator(i, ps, h):
    k = i["kind"]
    if k in ("ResourceUtilization", "NumberTasksAssigned", "ResourceIdle"):
        return getattr(ps, "Indicator" + k)(resource=h.resources[i["resource"]])
    if k == "ResourceCost":
        return ps.IndicatorResourceCost(list_of_resources=[h.resources[r] for r in i["resources"]])
    if k in ("Tardiness", "Earliness", "NumberOfTardyTasks", "MaximumLateness"):
        kw = {}
        if i.get("tasks") is not None:
            kw["list_of_tasks"] = [h.tasks[t] for t in i["tasks"]]
        return getattr(ps, "Indicator" + k)(**kw)
    if k in ("MaxBufferLevel", "MinBufferLevel"):
        return getattr(ps, "Indicator" + k)(buffer=h.buffers[i["buffer"]])
    if k == "FromMathExpression":
        kw = {}
        if i.get("bounds") is not None:
            kw["bounds"] = tuple(i["bounds"])
        return ps.IndicatorFromMathExpression(name=i["id"], expression=expr_to_z3(i["expr"], h), **kw)
    raise ValueError(f"unknown indicator kind {k}")


def _build_objective(o, ps, h):
    k = o["kind"]
    if k == "MinimizeMakespan":
        return ps.ObjectiveMinimizeMakespan()
    if k == "MaximizeResourceUtilization":
        return ps.ObjectiveMaximizeResourceUtilization(resource=h.resources[o["resource"]])
    if k == "MinimizeResourceCost":
        return ps.ObjectiveMinimizeResourceCost(list_of_resources=[h.resources[r] for r in o["resources"]])
    if k == "Priorities":
        return ps.ObjectivePriorities()
    if k in ("TasksStartLatest", "MinimizeGreatestStartTime", "MinimizeFlowtime"):
        kw = {}
        if o.get("tasks") is not None:
            kw["list_of_tasks"] = [h.tasks[t] for t in o["tasks"]]
        cls = {"TasksStartLatest": ps.ObjectiveTasksStartLatest, "MinimizeGreatestStartTime": ps.ObjectiveMinimizeGreatestStartTime,
               "MinimizeFlowtime": ps.ObjectiveMinimizeFlowtime}[k]
        return cls(**kw)
    if k == "TasksStartEarliest":
        return ps.ObjectiveTasksStartEarliest()
    if k == "MinimizeFlowtimeSingleResource":
        kw = {"resource": h.resources[o["resource"]]}
        if o.get("interval") is not None:
            kw["time_interval"] = tuple(o["interval"])
        return ps.ObjectiveMinimizeFlowtimeSingleResource(**kw)
    if k in ("MaximizeMaxBufferLevel", "MinimizeMaxBufferLevel"):
        return getattr(ps, "Objective" + k)(buffer=h.buffers[o["buffer"]])
    if k == "MaximizeIndicator":
        return ps.ObjectiveMaximizeIndicator(target=h.indicators[o["indicator"]], weight=o.get("weight", 1))
    if k == "MinimizeIndicator":
        return ps.ObjectiveMinimizeIndicator(target=h.indicators[o["indicator"]], weight=o.get("weight", 1))
    raise ValueError(f"unknown objective kind {k}")


# --------------------------------------------------------------------------------------
# spec transformations (twin clients)
# --------------------------------------------------------------------------------------
def iter_constraints(spec):
    """all constraint specs, nested ones included, depth first."""
    def walk(c):
        yield c
        for key in ("arg", "a", "b"):
            if isinstance(c.get(key), dict) and "kind" in c[key]:
                yield from walk(c[key])
        for key in ("args", "then", "else"):
            for x in c.get(key, []) or []:
                if isinstance(x, dict) and "kind" in x:
                    yield from walk(x)
    for c in spec.get("constraints", []):
        yield from walk(c)


def constraint_tasks(c):
    """task ids a (single, non-nested view of a) constraint names (ids of task groups used as
    operands of a precedence are listed too: dropping the group must drop the precedence)."""
    out = []
    for key in ("task", "before", "after", "t1", "t2"):
        if key in c and isinstance(c[key], str):
            out.append(c[key])
    out.extend(c.get("tasks", []) or [])
    for key in ("cond", "expr"):
        if key in c:
            out.extend(sorted(expr_mentions(c[key])))
    return out


def all_constraint_tasks(c):
    out = list(constraint_tasks(c))
    for key in ("arg", "a", "b"):
        if isinstance(c.get(key), dict):
            out.extend(all_constraint_tasks(c[key]) if "kind" in c[key] else sorted(expr_mentions(c[key]["expr"])))
    for key in ("args", "then", "else"):
        for x in c.get(key, []) or []:
            if isinstance(x, dict):
                out.extend(all_constraint_tasks(x) if "kind" in x else sorted(expr_mentions(x["expr"])))
    return out


def without_objectives(spec):
    s = copy.deepcopy(spec)
    s["objectives"] = []
    return s


def spec_kinds(spec):
    """sorted element-kind summary of a spec (for signatures / distinctness)."""
    kinds = set()
    for t in spec["tasks"]:
        kinds.add(("opt-" if t.get("optional") else "") + t["kind"])
    if spec.get("workers"):
        kinds.add("Worker")
    if spec.get("cumulative"):
        kinds.add("CumulativeWorker")
    if spec.get("selects"):
        kinds.add("SelectWorkers")
    for a in spec.get("assign", []):
        if a.get("dynamic"):
            kinds.add("dynamic")
        if a.get("delay_in") or a.get("early_out"):
            kinds.add("delayed")
    for b in spec.get("buffers", []):
        kinds.add("ConcurrentBuffer" if b.get("concurrent") else "NonConcurrentBuffer")
    for c in iter_constraints(spec):
        kinds.add(c["kind"])
    for i in spec.get("indicators", []):
        kinds.add("Indicator" + i["kind"])
    for o in spec.get("objectives", []):
        kinds.add("Objective" + o["kind"])
    return sorted(kinds)
