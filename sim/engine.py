"""Seams: the z3 engine façade (N2, N3, N4, N6, N10), the clock (N1), entropy (N5),
the file system behind ``open`` (N8, N9) and the print recorder.

Everything the library reads from the outside world goes through one ``Env`` object
that is installed by :func:`install` (module-level names of ``processscheduler.*`` are
replaced) and removed by :func:`uninstall`.

No PRNG is consulted here except through keyed sub-streams ``keyed_rng(run_seed, site)``
so that deleting plan steps never shifts unrelated decisions.
"""
from __future__ import annotations

import builtins
import errno as _errno
import hashlib
import io
import os as _real_os
import random as _real_random
import time as _real_time
import uuid as _real_uuid

import z3 as _z3


def H(*parts) -> int:
    """Stable 63-bit hash of the parts (never Python's randomised ``hash``)."""
    h = hashlib.sha256(repr(parts).encode()).digest()
    return int.from_bytes(h[:8], "big") >> 1


def keyed_rng(run_seed, *site) -> _real_random.Random:
    return _real_random.Random(H(run_seed, *site))


class HarnessError(Exception):
    """Something is wrong with the simulator itself (never a property violation)."""


class SimInterrupt(KeyboardInterrupt):
    """the user interrupts the process while the engine is checking (injected at the seam)"""


class StepCapExceeded(Exception):
    """An operation issued more engine checks than the step cap: no progress."""


# --------------------------------------------------------------------------------------
# Clock (N1)
# --------------------------------------------------------------------------------------
class SimClock:
    """Stands in for the ``time`` module inside ``processscheduler.solver``."""

    def __init__(self):
        self.now = 0.0
        self.reads = 0

    def perf_counter(self):
        self.reads += 1
        return self.now

    def time(self):
        self.reads += 1
        return self.now

    def advance(self, dt):
        self.now += float(dt)

    def sleep(self, dt):  # pragma: no cover - the library never sleeps
        self.advance(dt)


# --------------------------------------------------------------------------------------
# Entropy (N5)
# --------------------------------------------------------------------------------------
class _FakeUUID:
    __slots__ = ("int",)

    def __init__(self, value):
        self.int = value

    @property
    def hex(self):
        return "%032x" % self.int

    def __str__(self):
        h = self.hex
        return f"{h[:8]}-{h[8:12]}-{h[12:16]}-{h[16:20]}-{h[20:]}"


class SimUuid:
    """Stands in for the ``uuid`` module / the ``uuid4`` function.

    Draw number *n* is ``Random(H(run_seed, 'uuid', stream, n))`` so that it is a pure
    function of the plan.  ``collide`` = list of draw indices (of hex-prefix draws made by
    the solver's tracking-literal site) whose 8-hex prefix is forced equal to the
    previous draw of the same site (fault F9).
    """

    def __init__(self, run_seed, stream="u"):
        self.run_seed = run_seed
        self.stream = stream
        self.n = 0
        self.collide_at = set()
        self.last_value = None
        self.collisions_fired = 0

    def uuid4(self):
        self.n += 1
        value = keyed_rng(self.run_seed, "uuid", self.stream, self.n).getrandbits(128)
        if self.n in self.collide_at and self.last_value is not None:
            # same leading 32 bits (the 8 hex digits the tracking literal keeps)
            value = (self.last_value >> 96 << 96) | (value & ((1 << 96) - 1))
            self.collisions_fired += 1
        self.last_value = value
        return _FakeUUID(value)

    __call__ = uuid4

    def __getattr__(self, name):
        return getattr(_real_uuid, name)


class SimRandom:
    """Stands in for the ``random`` module inside ``processscheduler.solver``."""

    def __init__(self, run_seed):
        self.run_seed = run_seed
        self.n = 0

    def randint(self, a, b):
        self.n += 1
        return keyed_rng(self.run_seed, "random", self.n).randint(a, b)

    def __getattr__(self, name):
        return getattr(_real_random, name)


# --------------------------------------------------------------------------------------
# File system (N8, N9)
# --------------------------------------------------------------------------------------
class _SimFile(io.StringIO):
    def __init__(self, fs, path, mode):
        super().__init__()
        self._fs = fs
        self._path = path
        self._mode = mode
        self._nwrites = 0
        self._closed_once = False

    def write(self, s):
        self._nwrites += 1
        fault = self._fs._fault_for(self._path, "write", self._nwrites)
        if fault is not None:
            kind = fault.get("how", "error")
            if kind == "short":
                # half of the data reaches the disk, then the error surfaces
                super().write(s[: len(s) // 2])
            self._fs.files[self._path] = self.getvalue()
            self._fs._fired(fault, self._path)
            raise OSError(fault.get("errno", _errno.ENOSPC), _real_os.strerror(fault.get("errno", _errno.ENOSPC)), self._path)
        n = super().write(s)
        self._fs.files[self._path] = self.getvalue()
        return n

    def close(self):
        if not self._closed_once:
            self._closed_once = True
            self._fs.files[self._path] = self.getvalue()
            fault = self._fs._fault_for(self._path, "close", 1)
            super().close()
            if fault is not None:
                self._fs._fired(fault, self._path)
                raise OSError(fault.get("errno", _errno.EIO), _real_os.strerror(fault.get("errno", _errno.EIO)), self._path)
        else:
            super().close()

    def __exit__(self, *a):
        self.close()
        return False


class SimFS:
    """In-memory files behind the library's own ``open`` calls.

    ``faults`` is a list of dicts ``{"at": "open"|"write"|"close", "nth_file": k,
    "nth_write": n, "errno": e, "how": "error"|"short"}``; ``nth_file`` counts files
    opened for writing by the library in this run (1-based).
    """

    def __init__(self, cwd="/simfs"):
        self.cwd = cwd
        self.files = {}
        self.faults = []
        self.fired = []
        self.opened_for_write = 0
        self._file_index = {}
        self.log = []

    def _norm(self, path):
        path = _real_os.fspath(path)
        if not path.startswith("/"):
            path = self.cwd.rstrip("/") + "/" + path
        return path

    def _fault_for(self, path, at, nth):
        idx = self._file_index.get(path)
        for f in self.faults:
            if f.get("done"):
                continue
            if f["at"] != at:
                continue
            if f.get("nth_file") not in (None, idx):
                continue
            if at == "write" and f.get("nth_write", 1) != nth:
                continue
            return f
        return None

    def _fired(self, fault, path):
        fault["done"] = True
        self.fired.append({"at": fault["at"], "path": path, "errno": fault.get("errno"), "how": fault.get("how", "error")})

    def open(self, file, mode="r", *args, **kwargs):
        if isinstance(file, int):
            return builtins.open(file, mode, *args, **kwargs)
        path = self._norm(file)
        if not path.startswith(self.cwd):
            # not ours (the library only opens what the scripts tell it to)
            return builtins.open(file, mode, *args, **kwargs)
        if "w" in mode or "a" in mode or "x" in mode:
            self.opened_for_write += 1
            self._file_index[path] = self.opened_for_write
            self.log.append(("open-w", path))
            fault = self._fault_for(path, "open", 1)
            if fault is not None:
                self._fired(fault, path)
                raise OSError(fault.get("errno", _errno.EACCES), _real_os.strerror(fault.get("errno", _errno.EACCES)), path)
            f = _SimFile(self, path, mode)
            self.files[path] = ""  # truncation is visible at once
            return f
        if path not in self.files:
            raise FileNotFoundError(_errno.ENOENT, _real_os.strerror(_errno.ENOENT), path)
        return io.StringIO(self.files[path])

    # the os-module stand-in used by processscheduler.base / .solver
    def isfile(self, path):
        p = self._norm(path)
        if p.startswith(self.cwd):
            return p in self.files
        return _real_os.path.isfile(path)


class _SimOsPath:
    def __init__(self, fs):
        self._fs = fs

    def isfile(self, path):
        return self._fs.isfile(path)

    def __getattr__(self, name):
        return getattr(_real_os.path, name)


class SimOs:
    """Stands in for ``os`` inside processscheduler.base and processscheduler.solver."""

    def __init__(self, fs, cpu_count=4):
        self._fs = fs
        self._cpu = cpu_count
        self.path = _SimOsPath(fs)

    def getcwd(self):
        return self._fs.cwd

    def cpu_count(self):
        return self._cpu

    def __getattr__(self, name):
        return getattr(_real_os, name)


# --------------------------------------------------------------------------------------
# Print recorder
# --------------------------------------------------------------------------------------
class PrintRecorder:
    def __init__(self):
        self.records = []  # raw python objects, in order
        self.enabled = True

    def __call__(self, *args, **kwargs):
        if self.enabled:
            self.records.append(args)


# --------------------------------------------------------------------------------------
# Engine façade
# --------------------------------------------------------------------------------------
RLIMIT_DEFAULT = 4_000_000        # per library-level check
RLIMIT_SUB = 1_000_000            # per steering sub-check
RLIMIT_RUN_BUDGET = 30_000_000    # per run, all checks together (deterministic hang guard)
REAL_TIMEOUT_GUARD_MS = 25000
STEP_CAP_DEFAULT = 400


_STAT_PROBE = None


def _rlimit_count():
    """z3's resource counter (it belongs to the context, every solver object reports it).  Read from a
    solver object that never checks anything: the statistics of a solver that *has* checked carry a
    "time" entry only when the measured wall time is not zero, so asking the real object would make
    the allocator state - which z3's later answers depend on - a function of the wall clock."""
    global _STAT_PROBE
    if _STAT_PROBE is None:
        _STAT_PROBE = _z3.Solver()
    st = _STAT_PROBE.statistics()
    for key in st.keys():
        if key == "rlimit count":
            return st.get_key_value(key)
    return None


def _val(model, var):
    """python value of ``var`` in ``model`` (None when the model says nothing)."""
    v = model.eval(var, model_completion=False)
    if _z3.is_int_value(v):
        return v.as_long()
    if _z3.is_true(v):
        return True
    if _z3.is_false(v):
        return False
    if _z3.is_rational_value(v):
        return float(v.numerator_as_long()) / float(v.denominator_as_long())
    return None


def _pop(real, num=1):
    """z3.Optimize.pop() takes no count"""
    if isinstance(real, _z3.Optimize):
        for _ in range(num):
            real.pop()
    else:
        real.pop(num)


class SimSolver:
    """Proxy around one real z3 Solver / SolverFor / Optimize object."""

    def __init__(self, env, real, kind, logic=None):
        self._env = env
        self._real = real
        self._kind = kind  # "solver" | "solverfor" | "optimize"
        self._logic = logic
        self._handed = None  # the model handed to the library for the last sat check
        self._last_verdict = None
        self._reason = ""
        self._tracked = []     # tracking literals of assert_and_track (implicit assumptions)
        self._objectives = []  # (kind, expr) registered on an Optimize
        self._obj_handles = []
        self.depth = 0
        self.n_checks = 0
        self.owner = env.current_client
        env.solvers.append(self)
        env.trace("solver_new", kind=kind, logic=logic)

    # -- plain forwards -----------------------------------------------------------------
    def add(self, *args):
        self._env.trace_add(self, args)
        return self._real.add(*args)

    def assert_and_track(self, a, p):
        self._env.trace("track", p=str(p))
        self._env.tracked.append(str(p))
        self._tracked.append(p if not isinstance(p, str) else _z3.Bool(p))
        return self._real.assert_and_track(a, p)

    def push(self):
        self.depth += 1
        self._env.trace("push", depth=self.depth)
        return self._real.push()

    def pop(self, num=1):
        self.depth -= num
        self._env.trace("pop", depth=self.depth)
        return _pop(self._real, num)

    def set(self, *args, **kwargs):
        self._env.trace("set", args=[str(a) for a in args], kwargs={k: str(v) for k, v in kwargs.items()})
        return self._real.set(*args, **kwargs)

    def minimize(self, expr):
        self._objectives.append(("min", expr))
        h = self._real.minimize(expr)
        self._obj_handles.append(h)
        return h

    def maximize(self, expr):
        self._objectives.append(("max", expr))
        h = self._real.maximize(expr)
        self._obj_handles.append(h)
        return h

    def assertions(self):
        return self._real.assertions()

    def statistics(self):
        """what the library sees (it only prints them, in debug mode): a stub.  The real statistics
        carry wall-clock readings - even the *number* of entries depends on them, see _rlimit_count."""
        n = _rlimit_count()
        return [("rlimit count", n if n is not None else 0)]

    def param_descrs(self):
        return self._real.param_descrs()

    def reason_unknown(self):
        if self._last_verdict == "injected-unknown":
            return self._reason
        return self._real.reason_unknown()

    def unsat_core(self):
        core = self._real.unsat_core()
        self._env.trace("unsat_core", core=sorted(str(c) for c in core))
        return core

    def model(self):
        if self._handed is None:
            raise _z3.Z3Exception("model is not available")
        return self._handed

    def __getattr__(self, name):
        # anything not listed above goes to the real object (and is visible in the trace);
        # hasattr() therefore answers as the real object would (to_smt2 / sexpr)
        if name.startswith("__"):
            raise AttributeError(name)
        attr = getattr(self._real, name)
        self._env.trace("passthrough", name=name)
        return attr

    def _budgeted(self, real, limit, *assumptions):
        """one real engine check under the per-check and per-run deterministic resource
        limits; returns z3.unknown without consulting the engine once the run budget is spent."""
        env = self._env
        left = env.rl_budget - env.rl_used
        if left <= 0:
            env.budget_exhausted += 1
            return _z3.unknown
        try:
            real.set("rlimit", int(min(limit, left)))
            # last-resort wall-clock guard: rlimit is not honoured uniformly by z3's
            # non-linear arithmetic and by Optimize.  When it fires the run is flagged
            # (excluded from digest comparisons, counted inconclusive) and given up.
            real.set("timeout", REAL_TIMEOUT_GUARD_MS)
        except _z3.Z3Exception:  # pragma: no cover
            pass
        t_real = _real_time.monotonic()
        r = real.check(*assumptions)
        t_real = _real_time.monotonic() - t_real   # only used to flag the run, never to decide anything
        if r == _z3.unknown:
            try:
                why = str(real.reason_unknown())
            except _z3.Z3Exception:  # pragma: no cover
                why = ""
            if "timeout" in why or t_real > 0.8 * REAL_TIMEOUT_GUARD_MS / 1000.0:
                env.real_timeout_guard += 1
                env.rl_used = env.rl_budget  # give the run up: every later check answers unknown
        try:
            now = _rlimit_count()
            if now is not None:
                if env.rl_last is not None and now >= env.rl_last:
                    env.rl_used += now - env.rl_last
                env.rl_last = now
        except _z3.Z3Exception:  # pragma: no cover
            pass
        return r

    # -- the interesting one --------------------------------------------------------------
    def check(self, *assumptions):
        env = self._env
        self.n_checks += 1
        env.op_checks += 1
        env.total_checks += 1
        k = env.op_checks
        if env.op_checks > env.step_cap:
            raise StepCapExceeded(f"more than {env.step_cap} engine checks in one operation")
        d = env.directive_for_check(k)
        latency = d.get("latency", env.default_latency)
        env.clock.advance(latency)
        if latency < 0:
            env.fault_fired("clock-step-back")
        ev = {"k": k, "latency": latency}
        timeout_s = env.virtual_timeout_s
        if d.get("verdict") == "unknown":
            self._last_verdict = "injected-unknown"
            self._reason = d.get("reason", "canceled")
            self._handed = None
            env.fault_fired("unknown")
            ev["verdict"] = "unknown(injected)"
            env.trace("check", **ev)
            return _z3.unknown
        if timeout_s is not None and latency > timeout_s:
            self._last_verdict = "injected-unknown"
            self._reason = "timeout"
            self._handed = None
            env.fault_fired("virtual-timeout")
            ev["verdict"] = "unknown(timeout)"
            env.trace("check", **ev)
            return _z3.unknown

        if d.get("interrupt"):
            env.fault_fired("interrupt")
            ev["verdict"] = "interrupted"
            env.trace("check", **ev)
            raise SimInterrupt("interrupted during the engine check")
        steer = d.get("steer")
        live_objectives = self._kind == "optimize" and self._objectives
        r = None
        self._steer_ok = False
        if steer is not None and not live_objectives and not assumptions and not env.steering_off:
            r = self._steered_check(steer, ev)
        if r is None:
            r = self._budgeted(self._real, env.rlimit, *assumptions)
            if r == _z3.sat:
                self._handed = self._real.model()
                if live_objectives:
                    self._referee(ev)
                if steer is not None and live_objectives and not env.steering_off:
                    self._alt_optimal(steer, ev)
            else:
                self._handed = None
        if r == _z3.unknown:
            self._last_verdict = "real-unknown"
            env.fault_fired("engine-gave-up")
            env.inconclusive += 1

        else:
            self._last_verdict = str(r)
        ev["verdict"] = str(r)
        if r == _z3.sat:
            env.models_handed += 1
            snap = env.snapshot_model(self._handed)
            ev["model"] = snap
            if self._steer_ok:
                # the complete assignment of every unknown the builder knows: pinning it
                # again reproduces exactly this schedule (replay files carry this)
                env.resolved_steers.append({"op": env.op_index, "k": k, "pins": snap})
            env.last_models.append(snap)
            if len(env.last_models) > 64:
                env.last_models.pop(0)
        env.trace("check", **ev)
        return r

    # -- steering -----------------------------------------------------------------------
    def _pins_to_exprs(self, pins):
        out = []
        hv = self._env.handle_vars()
        for name, value in pins.items():
            var = hv.get(name)
            if var is None:
                continue
            if isinstance(value, bool):
                out.append(var if value else _z3.Not(var))
            elif isinstance(value, dict):
                # {"lt": v} / {"gt": v} / {"ne": v}: examiner questions
                for op, val in value.items():
                    out.append({"lt": var < val, "gt": var > val, "le": var <= val, "ge": var >= val, "ne": var != val}[op])
            else:
                out.append(var == int(value))
        return out

    def _steered_check(self, steer, ev):
        """Returns z3.sat (model kept) when the steer is admitted, else None."""
        env = self._env
        real = self._real
        mode = steer.get("mode", "pin")
        if mode == "pin":
            exprs = self._pins_to_exprs(steer.get("pins", {}))
            if not exprs:
                return None
            real.push()
            try:
                real.add(*exprs)
                r = self._budgeted(real, RLIMIT_SUB)
                if r == _z3.sat:
                    self._handed = real.model()
                elif r == _z3.unknown:
                    env.steering_off = True  # hard instance: stop steering for this run
            finally:
                real.pop()
            if r == _z3.sat:
                env.steer_admitted += 1
                ev["steer"] = {"mode": "pin", "admitted": True, "npins": len(exprs)}
                for key in ("expect", "tag"):
                    if key in steer:
                        ev["steer"][key] = steer[key]
                if "expect" in steer:
                    ev["steer"]["pins"] = steer.get("pins")
                self._steer_ok = True
                return _z3.sat
            env.steer_refused += 1
            ev["steer"] = {"mode": "pin", "admitted": False, "npins": len(exprs), "why": str(r)}
            for key in ("expect", "tag"):
                if key in steer:
                    ev["steer"][key] = steer[key]
            if "expect" in steer:
                ev["steer"]["pins"] = steer.get("pins")
            return None
        if mode == "greedy":
            # greedy random pinning: walk the decision unknowns in a keyed random order and
            # try to fix each to a keyed random value taken from an adversarial value set;
            # keep the pin when the stack stays satisfiable.  The model of the last
            # satisfiable check is a genuine model of the library's own stack.
            rng = keyed_rng(env.run_seed, "greedy", steer.get("key", 0))
            cands = env.greedy_candidates(rng, steer)
            if not cands:
                return None
            stuck = {}
            pushed = 0
            budget = steer.get("budget", 24)
            model = None
            try:
                for name, value in cands[:budget]:
                    exprs = self._pins_to_exprs({name: value})
                    if not exprs:
                        continue
                    if model is not None:
                        # cheap filter: value already taken by the current model?
                        cur = _val(model, env.handle_vars()[name])
                        if cur is not None and cur == value:
                            real.push(); pushed += 1
                            real.add(*exprs)
                            stuck[name] = value
                            continue
                    real.push(); pushed += 1
                    real.add(*exprs)
                    r = self._budgeted(real, RLIMIT_SUB)
                    if r == _z3.sat:
                        model = real.model()
                        stuck[name] = value
                    else:
                        real.pop(); pushed -= 1
                        if r == _z3.unknown:
                            env.steering_off = True  # hard instance: stop steering for this run
                            break
            finally:
                if pushed:
                    _pop(real, pushed)
            if model is None:
                env.steer_refused += 1
                ev["steer"] = {"mode": "greedy", "admitted": False}
                return None
            self._handed = model
            env.steer_admitted += 1
            ev["steer"] = {"mode": "greedy", "admitted": True, "stuck": stuck}
            self._steer_ok = True
            return _z3.sat
        raise HarnessError(f"unknown steer mode {mode!r}")

    def _referee(self, ev):
        """The built-in optimiser answered sat: what is the true optimum of *its own*
        assertion set?  Found with a plain solver and an own tightening loop (sat/unsat
        answers only).  A difference between the value z3.Optimize reports and this optimum
        is a defect of the engine, not of the way the library wires its objectives - the
        oracles need to tell the two apart."""
        env = self._env
        if not self._objectives or (len(self._objectives) > 1 and env.optimize_priority == "pareto"):
            return
        try:
            m0 = self._handed
            out = []
            fixed = []
            for kind, expr in self._objectives:
                reported = m0.eval(expr, model_completion=True)
                if not _z3.is_int_value(reported):
                    return
                reported = reported.as_long()
                sh = _z3.Solver()
                sh.add(self._real.assertions())
                if self._tracked:
                    sh.add(*self._tracked)
                if env.optimize_priority == "lex":
                    sh.add(*fixed)
                best = self._referee_optimum(sh, kind, expr)
                out.append({"kind": kind, "reported": reported, "optimum": best})
                if best is not None:
                    fixed.append(expr == best)
            ev["referee"] = out
        except _z3.Z3Exception:
            return

    def _referee_optimum(self, sh, kind, expr):
        """optimum of ``expr`` over the assertions of the plain solver ``sh`` (None when it cannot be
        established): galloping steps from the first model, then bisection - the engine may start
        thousands of units away from the optimum and come down one unit per model."""
        sign = 1 if kind == "min" else -1      # work on sign*expr, always minimising

        def value():
            v = sh.model().eval(expr, model_completion=True)
            return sign * v.as_long() if _z3.is_int_value(v) else None

        r = self._budgeted(sh, RLIMIT_SUB)
        if r != _z3.sat:
            return None
        best = value()
        if best is None:
            return None
        lo = None          # sign*expr >= lo is established
        step = 1
        for _ in range(90):
            if lo is not None and lo >= best:
                return sign * best
            target = best - step if lo is None else (lo + best - 1) // 2 if best - 1 > lo else lo
            if lo is not None and target < lo:
                target = lo
            sh.push()
            sh.add(sign * expr <= target)
            r = self._budgeted(sh, RLIMIT_SUB)
            if r == _z3.unknown:
                sh.pop()
                return None
            if r == _z3.sat:
                v = value()
                sh.pop()
                if v is None:
                    return None
                best = min(best, v)
                step *= 2
            else:
                sh.pop()
                lo = target + 1
        return None

    def _alt_optimal(self, steer, ev):
        """Optimize with live objectives: after the real optimum, look for another model
        with the *same* objective values under the steer (shadow plain solver)."""
        env = self._env
        if env.optimize_priority not in ("lex", "weight", None) and len(self._objectives) > 1:
            return
        try:
            shadow = _z3.Solver()
            shadow.add(self._real.assertions())
            if self._tracked:
                shadow.add(*self._tracked)  # tracked assertions are implications guarded by these
            m0 = self._handed
            for _kind, expr in self._objectives:
                v = m0.eval(expr, model_completion=True)
                shadow.add(expr == v)
            saved_real, self._real = self._real, shadow
            saved_handed = self._handed
            try:
                r = self._steered_check(steer, ev)
            finally:
                self._real = saved_real
            if r != _z3.sat:
                self._handed = saved_handed
            else:
                ev["alt_optimal"] = True
                env.fault_fired("alt-optimal")
        except _z3.Z3Exception:
            self._handed = self._handed


class SimZ3:
    """Stands in for the ``z3`` module inside ``processscheduler.solver`` only."""

    def __init__(self, env):
        self._env = env

    def Solver(self, *a, **k):
        return SimSolver(self._env, _z3.Solver(*a, **k), "solver")

    def SolverFor(self, logic, *a, **k):
        return SimSolver(self._env, _z3.SolverFor(logic, *a, **k), "solverfor", logic)

    def Optimize(self, *a, **k):
        return SimSolver(self._env, _z3.Optimize(*a, **k), "optimize")

    def set_option(self, *args, **kwargs):
        env = self._env
        opts = {}
        if args:
            for i in range(0, len(args), 2):
                opts[str(args[i])] = args[i + 1]
        opts.update(kwargs)
        for name, value in opts.items():
            env.options[name] = value
            env.trace("set_option", name=name, value=str(value))
            if name == "timeout":
                env.virtual_timeout_s = float(value) / 1000.0
                continue  # virtualised
            if name == "verbose":
                continue  # z3 verbosity writes to the real stderr; not part of any property
            if name == "parallel.enable":
                if value:
                    env.stub_parallel = True
                _z3.set_option("parallel.enable", False)
                continue
            if name in ("sat.threads", "smt.threads"):
                _z3.set_option(name, 1)
                continue
            _z3.set_option(name, value)

    def get_param(self, name):
        return _z3.get_param(name)

    def __getattr__(self, name):
        return getattr(_z3, name)


# --------------------------------------------------------------------------------------
# Env: one per run
# --------------------------------------------------------------------------------------
class Env:
    def __init__(self, run_seed, rlimit=RLIMIT_DEFAULT, step_cap=STEP_CAP_DEFAULT):
        self.run_seed = run_seed
        self.rlimit = rlimit
        self.step_cap = step_cap
        self.clock = SimClock()
        self.uuid = SimUuid(run_seed)
        self.random = SimRandom(run_seed)
        self.fs = SimFS()
        self.os = SimOs(self.fs)
        self.printer = PrintRecorder()
        self.z3 = SimZ3(self)
        self.options = {}
        self.virtual_timeout_s = None
        self.stub_parallel = False
        self.optimize_priority = None
        self.default_latency = 0.001
        self.solvers = []
        self.tracked = []
        self.current_client = None
        self.current_handles = None
        self.op_index = -1
        self.op_checks = 0
        self.op_env = []
        self.op_default = {}
        self.total_checks = 0
        self.models_handed = 0
        self.inconclusive = 0
        self.steer_admitted = 0
        self.steer_refused = 0
        self.faults = {}
        self.op_faults = []
        self.events = []
        self.op_trace = []
        self.last_models = []
        self.resolved_steers = []
        self.trace_level = 1
        self.rl_budget = RLIMIT_RUN_BUDGET
        self.rl_used = 0
        self.rl_last = None
        self.budget_exhausted = 0
        self.steering_off = False
        self.real_timeout_guard = 0

    # tracing ---------------------------------------------------------------------------
    def trace(self, what, **kw):
        if self.trace_level:
            kw["e"] = what
            self.op_trace.append(kw)

    def trace_add(self, solver, args):
        if self.trace_level:
            n = 0
            for a in args:
                n += len(a) if isinstance(a, (list, tuple)) else 1
            self.op_trace.append({"e": "add", "n": n})

    def fault_fired(self, kind):
        self.faults[kind] = self.faults.get(kind, 0) + 1
        self.op_faults.append(kind)

    # per-op protocol -------------------------------------------------------------------
    def begin_op(self, index, client, handles, env_list, default):
        self.op_index = index
        self.current_client = client
        self.current_handles = handles
        self.op_checks = 0
        self.op_env = env_list or []
        self.op_default = default or {}
        self.op_faults = []
        self.op_trace = []

    def directive_for_check(self, k):
        if k - 1 < len(self.op_env):
            d = self.op_env[k - 1]
            return d if d is not None else {}
        return self.op_default

    def handle_vars(self):
        return self.current_handles.vars if self.current_handles is not None else {}

    def snapshot_model(self, model):
        """{handle name: python value} for every unknown the builder knows of."""
        out = {}
        for name, var in self.handle_vars().items():
            try:
                v = _val(model, var)
                if v is None and name.startswith("app:"):
                    # "applied" flags of optional constraints the engine left out of its model:
                    # the model's own completion (False) is what every assertion was checked under
                    v = _z3.is_true(model.eval(var, model_completion=True))
            except _z3.Z3Exception:
                v = None
            if v is not None:
                out[name] = v
        return out

    def greedy_candidates(self, rng, steer):
        h = self.current_handles
        if h is None:
            return []
        return h.greedy_candidates(rng, steer)


# --------------------------------------------------------------------------------------
# install / uninstall
# --------------------------------------------------------------------------------------
_PATCHED = []


def _patch(module, name, value, must_exist=True):
    if must_exist and not hasattr(module, name):
        raise HarnessError(f"seam moved: {module.__name__}.{name} does not exist")
    old = getattr(module, name, _MISSING)
    _PATCHED.append((module, name, old))
    setattr(module, name, value)


_MISSING = object()


def install(env: Env):
    import processscheduler.base as b
    import processscheduler.solver as s
    import processscheduler.problem as p
    import processscheduler.task_constraint as tc
    import processscheduler.resource_constraint as rc
    import processscheduler.objective as ob

    if _PATCHED:
        raise HarnessError("seams already installed")
    _patch(s, "z3", env.z3)
    _patch(s, "time", env.clock)
    _patch(s, "uuid", env.uuid)
    _patch(s, "random", env.random)
    _patch(s, "os", env.os)
    _patch(s, "print", env.printer)
    _patch(s, "open", env.fs.open, must_exist=False)
    _patch(b, "uuid4", env.uuid.uuid4)
    _patch(b, "os", env.os)
    _patch(b, "open", env.fs.open, must_exist=False)
    _patch(p, "open", env.fs.open, must_exist=False)
    _patch(tc, "uuid", env.uuid)
    _patch(rc, "uuid", env.uuid)
    _patch(ob, "uuid", env.uuid)
    # defaults of the real engine for a fresh run (children are forked from a parent that
    # never touched them, but replays inside one process must start equal)
    for name, value in (("unsat_core", False), ("sat.random_seed", 0), ("smt.random_seed", 0),
                        ("smt.arith.random_initial_value", False), ("parallel.enable", False)):
        _z3.set_option(name, value)


def uninstall():
    while _PATCHED:
        module, name, old = _PATCHED.pop()
        if old is _MISSING:
            try:
                delattr(module, name)
            except AttributeError:
                pass
        else:
            setattr(module, name, old)


def self_check(env: Env):
    """Canary: after one solve the clock must have been read through the seam and every
    engine object of processscheduler.solver must be a SimSolver."""
    import processscheduler.solver as s
    if s.z3 is not env.z3 or s.time is not env.clock:
        raise HarnessError("seams not installed")
