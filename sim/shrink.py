"""Delta-debugging minimiser over plans (explicit JSON).  The predicate re-executes the
candidate plan in a fresh forked child and asks for the *same violation signature*."""
from __future__ import annotations

import copy

from .spec import all_constraint_tasks, expr_mentions, expr_inds


def _spec_clients(plan):
    """indices of clients that carry their own spec dict"""
    return [i for i, c in enumerate(plan["clients"]) if isinstance(c["spec"], dict)]


def _constraint_refs_task(c, tid):
    return tid in all_constraint_tasks(c)


def _strip_task_from_constraint(c, tid):
    """list-valued constraints are shortened; others are dropped (None)."""
    if "tasks" in c and tid in c["tasks"] and c["kind"] not in ("Not", "And", "Or"):
        rest = [t for t in c["tasks"] if t != tid]
        minlen = 2 if c["kind"] in ("TasksContiguous", "UnorderedTaskGroup", "OrderedTaskGroup") else 1
        if len(rest) >= minlen:
            c2 = copy.deepcopy(c)
            c2["tasks"] = rest
            if "nb" in c2:
                c2["nb"] = min(c2["nb"], len(rest))
            if not _constraint_refs_task(c2, tid):
                return c2
    return None


def drop_task(spec, tid):
    s = copy.deepcopy(spec)
    if len(s["tasks"]) <= 1:
        return None
    s["tasks"] = [t for t in s["tasks"] if t["id"] != tid]
    s["assign"] = [a for a in s.get("assign", []) if a["task"] != tid]
    new = []
    dropped = set()
    for c in s.get("constraints", []):
        if _constraint_refs_task(c, tid):
            c2 = _strip_task_from_constraint(c, tid)
            if c2 is None:
                dropped.add(c["id"])
                continue
            c = c2
        new.append(c)
    s["constraints"] = new
    _repair(s, dropped)
    inds = []
    for i in s.get("indicators", []):
        if "tasks" in i and i["tasks"] and tid in i["tasks"]:
            i = dict(i)
            i["tasks"] = [t for t in i["tasks"] if t != tid]
            if not i["tasks"]:
                continue
        if "expr" in i and tid in expr_mentions(i["expr"]):
            continue
        inds.append(i)
    _set_indicators(s, inds)
    for o in s.get("objectives", []):
        if o.get("tasks") and tid in o["tasks"]:
            o["tasks"] = [t for t in o["tasks"] if t != tid]
    s["objectives"] = [o for o in s.get("objectives", []) if o.get("tasks") is None or o["tasks"]]
    return s


def _set_indicators(s, inds):
    keep = set(i["id"] for i in inds)
    gone = set(i["id"] for i in s.get("indicators", [])) - keep
    s["indicators"] = inds
    if gone:
        s["constraints"] = [c for c in s.get("constraints", []) if c.get("indicator") not in gone and not (_inds_of(c) & gone)]
        s["objectives"] = [o for o in s.get("objectives", []) if o.get("indicator") not in gone]


def _inds_of(c):
    out = set()
    for key in ("expr", "cond"):
        if key in c:
            out |= expr_inds(c[key])
    return out


def _repair(s, dropped_constraints):
    """ForceApplyN lists must stay non-empty and refer to existing optional constraints"""
    ids = set(c["id"] for c in s.get("constraints", []))
    tids = set(t["id"] for t in s.get("tasks", []))
    new = []
    for c in s.get("constraints", []):
        if c["kind"] == "TaskPrecedence" and c.get("groups") and not all(c[k] in ids or c[k] in tids for k in ("before", "after")):
            continue  # precedence between task groups: a group is gone
        if c["kind"] == "ForceApplyNOptionalConstraints":
            rest = [x for x in c["constraints"] if x in ids]
            if not rest:
                continue
            c = dict(c)
            c["constraints"] = rest
            c["nb"] = min(c["nb"], len(rest))
        new.append(c)
    s["constraints"] = new


def drop_resource(spec, rid):
    s = copy.deepcopy(spec)
    s["workers"] = [w for w in s.get("workers", []) if w["id"] != rid]
    s["cumulative"] = [w for w in s.get("cumulative", []) if w["id"] != rid]
    sel_gone = set()
    sels = []
    for x in s.get("selects", []):
        if x["id"] == rid:
            sel_gone.add(rid)
            continue
        if rid in x["workers"]:
            rest = [w for w in x["workers"] if w != rid]
            if len(rest) < 2:
                sel_gone.add(x["id"])
                continue
            x = dict(x)
            x["workers"] = rest
            x["nb"] = min(x.get("nb", 1), len(rest))
        sels.append(x)
    s["selects"] = sels
    gone = {rid} | sel_gone
    s["assign"] = [a for a in s.get("assign", []) if a["resource"] not in gone]
    s["constraints"] = [c for c in s.get("constraints", []) if c.get("resource") not in gone and c.get("s1") not in gone and c.get("s2") not in gone]
    inds = [i for i in s.get("indicators", []) if i.get("resource") not in gone and not (set(i.get("resources") or []) & gone)]
    _set_indicators(s, inds)
    s["objectives"] = [o for o in s.get("objectives", []) if o.get("resource") not in gone and not (set(o.get("resources") or []) & gone)]
    _repair(s, set())
    # resource constraints / indicators need the resource to stay assigned
    assigned = set(a["resource"] for a in s["assign"])
    for x in s["selects"]:
        if x["id"] in assigned:
            assigned |= set(x["workers"])
    s["constraints"] = [c for c in s["constraints"] if c.get("resource") is None or c["resource"] in assigned]
    inds = [i for i in s["indicators"] if (i.get("resource") is None or i["resource"] in assigned) and all(r in assigned for r in (i.get("resources") or []))]
    _set_indicators(s, inds)
    s["objectives"] = [o for o in s["objectives"] if (o.get("resource") is None or o["resource"] in assigned) and all(r in assigned for r in (o.get("resources") or []))]
    return s


def drop_buffer(spec, bid):
    s = copy.deepcopy(spec)
    s["buffers"] = [b for b in s.get("buffers", []) if b["id"] != bid]
    s["constraints"] = [c for c in s.get("constraints", []) if c.get("buffer") != bid]
    inds = [i for i in s.get("indicators", []) if i.get("buffer") != bid]
    _set_indicators(s, inds)
    s["objectives"] = [o for o in s.get("objectives", []) if o.get("buffer") != bid]
    return s


def spec_variants(spec):
    """Yield simpler specs, most aggressive first."""
    for c in list(spec.get("constraints", [])):
        s = copy.deepcopy(spec)
        s["constraints"] = [x for x in s["constraints"] if x["id"] != c["id"]]
        _repair(s, {c["id"]})
        yield s
    for i in list(spec.get("indicators", [])):
        s = copy.deepcopy(spec)
        _set_indicators(s, [x for x in s["indicators"] if x["id"] != i["id"]])
        yield s
    for k in range(len(spec.get("objectives", []))):
        s = copy.deepcopy(spec)
        del s["objectives"][k]
        yield s
    for b in spec.get("buffers", []):
        yield drop_buffer(spec, b["id"])
    for k in range(len(spec.get("assign", []))):
        s = copy.deepcopy(spec)
        a = s["assign"].pop(k)
        yield drop_resource_if_unassigned(s)
    for key in ("selects", "cumulative", "workers"):
        for r in spec.get(key, []):
            yield drop_resource(spec, r["id"])
    for t in spec["tasks"]:
        s = drop_task(spec, t["id"])
        if s is not None:
            yield s
    # simplify elements
    for k, t in enumerate(spec["tasks"]):
        for field in ("optional", "release", "due", "priority", "work", "allowed", "max"):
            if t.get(field) is not None:
                s = copy.deepcopy(spec)
                s["tasks"][k].pop(field)
                if field == "due":
                    s["tasks"][k].pop("deadline", None)
                yield s
        if t["kind"] == "variable":
            s = copy.deepcopy(spec)
            s["tasks"][k] = {kk: vv for kk, vv in t.items() if kk not in ("min", "max", "allowed")}
            s["tasks"][k]["kind"] = "fixed"
            s["tasks"][k]["duration"] = max(1, t.get("min") or 1)
            yield s
        if t["kind"] == "fixed" and t["duration"] > 1:
            s = copy.deepcopy(spec)
            s["tasks"][k]["duration"] = t["duration"] - 1
            yield s
    for k, w in enumerate(spec.get("workers", [])):
        for field in ("productivity", "cost"):
            if w.get(field) is not None:
                s = copy.deepcopy(spec)
                s["workers"][k].pop(field)
                yield s
    for k, a in enumerate(spec.get("assign", [])):
        for field in ("dynamic", "delay_in", "early_out"):
            if a.get(field):
                s = copy.deepcopy(spec)
                s["assign"][k].pop(field)
                yield s
    if spec.get("horizon") is not None:
        s = copy.deepcopy(spec)
        s["horizon"] = None
        yield s
        if spec["horizon"] > 1:
            s = copy.deepcopy(spec)
            s["horizon"] = spec["horizon"] - 1
            yield s
    for field in ("delta_time_s", "start_time"):
        if spec.get(field) is not None:
            s = copy.deepcopy(spec)
            s[field] = None
            yield s


def drop_resource_if_unassigned(s):
    """after removing an assignment: drop constraints/indicators on resources that lost all uses"""
    assigned = set(a["resource"] for a in s["assign"])
    for x in s.get("selects", []):
        if x["id"] in assigned:
            assigned |= set(x["workers"])
    counts = {}
    for a in s["assign"]:
        names = [a["resource"]]
        for x in s.get("selects", []):
            if x["id"] == a["resource"]:
                names = x["workers"]
        for n in names:
            counts[n] = counts.get(n, 0) + 1

    def ok(c):
        r = c.get("resource")
        if r is None:
            return True
        if r not in assigned:
            return False
        if c["kind"] == "ResourceTasksDistance" and counts.get(r, 0) < 2:
            return False
        return True

    s["constraints"] = [c for c in s["constraints"] if ok(c) and (c.get("s1") is None or (c["s1"] in assigned and c["s2"] in assigned))]
    inds = [i for i in s["indicators"] if (i.get("resource") is None or i["resource"] in assigned) and all(r in assigned for r in (i.get("resources") or []))]
    _set_indicators(s, inds)
    s["objectives"] = [o for o in s["objectives"] if (o.get("resource") is None or o["resource"] in assigned) and all(r in assigned for r in (o.get("resources") or []))]
    for t in s["tasks"]:
        if t.get("work") and not any(a["task"] == t["id"] for a in s["assign"]):
            t.pop("work")
    return s


def plan_variants(plan, rederive=None):
    # 1. script: drop trailing ops, then single ops
    n = len(plan["script"])
    for k in range(n - 1, 0, -1):
        p = copy.deepcopy(plan)
        p["script"] = p["script"][:k]
        yield p
    for k in range(n):
        if n > 1:
            p = copy.deepcopy(plan)
            del p["script"][k]
            yield p
    # 2. prelude / unused clients
    used = set(s["client"] for s in plan["script"])
    for k, c in enumerate(plan["clients"]):
        if c["id"] not in used and not any(isinstance(o["spec"], str) and o["spec"][1:] == c["id"] for o in plan["clients"]):
            p = copy.deepcopy(plan)
            del p["clients"][k]
            yield p
    # 3. environment directives
    for k, step in enumerate(plan["script"]):
        if step.get("default"):
            p = copy.deepcopy(plan)
            p["script"][k].pop("default")
            yield p
        env = step.get("env") or []
        if env:
            p = copy.deepcopy(plan)
            p["script"][k]["env"] = []
            yield p
            for j, d in enumerate(env):
                if d:
                    p = copy.deepcopy(plan)
                    p["script"][k]["env"][j] = {}
                    yield p
                    for field in list(d.keys()):
                        if len(d) > 1:
                            p = copy.deepcopy(plan)
                            p["script"][k]["env"][j].pop(field)
                            yield p
    for field in ("fs_faults", "uuid_collide"):
        if plan.get(field):
            p = copy.deepcopy(plan)
            p[field] = []
            yield p
    # 4. configuration
    for k, c in enumerate(plan["clients"]):
        for field in list((c.get("config") or {}).keys()):
            p = copy.deepcopy(plan)
            p["clients"][k]["config"].pop(field)
            yield p
    # 5. specs
    for k in _spec_clients(plan):
        if rederive is not None and k != 0:
            continue
        for s in spec_variants(plan["clients"][k]["spec"]):
            if s is None:
                continue
            p = copy.deepcopy(plan)
            p["clients"][k]["spec"] = s
            if rederive is not None:
                try:
                    p = rederive(p)
                except Exception:  # noqa: BLE001
                    continue
                if p is None:
                    continue
            yield p


def minimise(plan, still_fails, budget=150, rederive=None):
    """still_fails(plan) -> bool (re-executes).  Returns (smaller plan, executions used)."""
    used = 0
    best = plan
    progress = True
    while progress and used < budget:
        progress = False
        for cand in plan_variants(best, rederive):
            if used >= budget:
                break
            used += 1
            if still_fails(cand):
                best = cand
                progress = True
                break
    return best, used
